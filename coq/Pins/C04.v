(** Pins for C04: the statements written out, so that no theorem is weakened quietly. *)
From TucModel Require Import Base.Bytes Base.ListX Model.Bounds Model.BoundsParse Model.CutBytes Model.Opt
     Model.Stream Proofs.C04 Proofs.C04Parse Properties.C04.


Check C04_segmentation_independence :
  forall (so : sopt) (cs cs' : list bytes),
    no_adjacent_fillers (s_items so) ->
    chunks_ok cs -> chunks_ok cs' -> concat cs = concat cs' ->
    run_stream so cs = run_stream so cs'.
Print Assumptions C04_segmentation_independence.

Check C04_any_segmentation_equals_single_read :
  forall (so : sopt) (cs : list bytes),
    no_adjacent_fillers (s_items so) -> chunks_ok cs ->
    run_stream so cs = run_stream_whole so (concat cs).
Print Assumptions C04_any_segmentation_equals_single_read.

Check C04_side_condition_always_holds :
  forall (s : bytes) (u : ublist), parse_ublist s = Some u -> no_adjacent_fillers (items u).
Print Assumptions C04_side_condition_always_holds.

Check C04_stream_items_are_the_parsed_bounds :
  forall (o : opt) (so : sopt), stream_opt o = Some so -> s_items so = items (o_bounds o).
Print Assumptions C04_stream_items_are_the_parsed_bounds.
