(** Pins for C12: the statements written out, so that no theorem is weakened quietly. *)
From TucModel Require Import Base.Bytes Base.ListX Model.Bounds Model.Scan Model.Opt Model.CutBytes
     Model.CutStr Model.FastLane Spec.Resolve Proofs.BoundsFacts Proofs.C06 Proofs.ScanSplit Proofs.C02 Proofs.C12 Model.Stream Model.Args Model.Main Proofs.C04 Proofs.C12Total Properties.C12.


Check C12_every_invocation_ends_with_status_0_or_1 :
  forall (argv : args) (input : bytes), mres_ok (run_main argv input).
Print Assumptions C12_every_invocation_ends_with_status_0_or_1.

Check C12_every_option_set_terminates :
  forall (o : opt) (input : bytes), parsed_opt o -> mres_ok (run_opt o input).
Print Assumptions C12_every_option_set_terminates.

Check C12_parse_args_builds_well_formed_options :
  forall (argv : args) (o : opt), parse_args argv = POpt o -> parsed_opt o.
Print Assumptions C12_parse_args_builds_well_formed_options.

Check C12_general_path_record :
  forall (o : opt) (line0 : bytes), bounds_ok o -> rx_consistent o ->
    match cut_str o line0 with Some r => rres_ok r | None => True end.
Print Assumptions C12_general_path_record.

Check C12_fixed_memory_terminates :
  forall (so : sopt) (input : bytes), no_adjacent_fillers (s_items so) ->
    outcome_ok (run_stream_whole so input).
Print Assumptions C12_fixed_memory_terminates.

Check C12_literal_matches_are_well_formed :
  forall d line : bytes, wf_ms 0 (lit_matches d line) (length line).
Print Assumptions C12_literal_matches_are_well_formed.

Check C12_greedy_matches_are_well_formed :
  forall (ms : list mtch) (len : nat), wf_ms 0 ms len -> wf_ms 0 (merge_adjacent ms) len.
Print Assumptions C12_greedy_matches_are_well_formed.

Check C12_general_path_never_indexes_out_of_range :
  forall (o : opt) (line : bytes) (ms : list mtch) (bs : list bof),
    line <> [] -> wf_ms 0 ms (length line) -> Forall item_nz bs ->
    out_loop o line (fields_of_matches ms line) bs <> RPanic.
Print Assumptions C12_general_path_never_indexes_out_of_range.

Check C12_fast_lane_never_indexes_out_of_range :
  forall (o : opt) (l : list bof) (line0 : bytes),
    fast_eligible o = true -> from_vec l = Some (o_bounds o) -> Forall item_nz l ->
    cut_str o line0 <> Some RPanic -> cut_fast o line0 <> RPanic.
Print Assumptions C12_fast_lane_never_indexes_out_of_range.

Check C12_range_expansion_is_bounded_by_the_parts :
  forall (b : ubound) (n : nat), bound_nz b -> length (unpack_bound b n) <= Nat.max 1 n.
Print Assumptions C12_range_expansion_is_bounded_by_the_parts.
