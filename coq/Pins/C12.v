(** Pins for C12: the statements written out, so that no theorem is weakened quietly. *)
From TucModel Require Import Base.Bytes Base.ListX Model.Bounds Model.Scan Model.Opt Model.CutBytes
     Model.CutStr Model.FastLane Spec.Resolve Proofs.BoundsFacts Proofs.C06 Proofs.ScanSplit Proofs.C02 Proofs.C12 Properties.C12.


Check C12_literal_matches_are_well_formed :
  forall d line : bytes, wf_ms 0 (lit_matches d line) (length line).
Print Assumptions C12_literal_matches_are_well_formed.

Check C12_greedy_matches_are_well_formed :
  forall (ms : list mtch) (len : nat), wf_ms 0 ms len -> wf_ms 0 (merge_adjacent ms) len.
Print Assumptions C12_greedy_matches_are_well_formed.

Check C12_general_path_never_indexes_out_of_range :
  forall (o : opt) (line : bytes) (ms : list mtch) (bs : list bof),
    line <> [] -> wf_ms 0 ms (length line) -> Forall item_nz bs ->
    out_loop o line (fields_of_matches ms line) bs <> RPanic.
Print Assumptions C12_general_path_never_indexes_out_of_range.

Check C12_fast_lane_never_indexes_out_of_range :
  forall (o : opt) (l : list bof) (line0 : bytes),
    fast_eligible o = true -> from_vec l = Some (o_bounds o) -> Forall item_nz l ->
    cut_str o line0 <> Some RPanic -> cut_fast o line0 <> RPanic.
Print Assumptions C12_fast_lane_never_indexes_out_of_range.

Check C12_range_expansion_is_bounded_by_the_parts :
  forall (b : ubound) (n : nat), bound_nz b -> length (unpack_bound b n) <= Nat.max 1 n.
Print Assumptions C12_range_expansion_is_bounded_by_the_parts.
