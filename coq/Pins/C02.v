(** Pins for C02: the statements written out, so that no theorem is weakened quietly. *)
From TucModel Require Import Base.Bytes Base.ListX Model.Bounds Model.BoundsParse Model.Scan Model.Opt
     Model.CutBytes Model.CutStr Model.FastLane Spec.Resolve Proofs.BoundsFacts Proofs.C06 Proofs.ParseFacts
     Proofs.C02 Properties.C02.
Local Open Scope Z_scope.

Check C02_fast_lane_equals_general_path :
  forall (o : opt) (l : list bof) (input : bytes),
    fast_eligible o = true -> from_vec l = Some (o_bounds o) -> Forall item_nz l ->
    read_and_cut_fast o input = read_and_cut_str o input.
Print Assumptions C02_fast_lane_equals_general_path.

Check C02_each_record :
  forall (o : opt) (l : list bof) (record : bytes),
    fast_eligible o = true -> from_vec l = Some (o_bounds o) -> Forall item_nz l ->
    cut_str o record = Some (cut_fast o record).
Print Assumptions C02_each_record.

Check C02_last_interesting_field_is_sound :
  forall (l : list bof) (u : ublist) (L : Z),
    from_vec l = Some u -> lif u = SSome L -> 0 < L -> items_within L (items u).
Print Assumptions C02_last_interesting_field_is_sound.

Check C02_early_stop_never_changes_a_range :
  forall (L n : nat) (b : ubound),
    bound_within (Z.of_nat L) b -> (L <= n)%nat -> try_into_range b L = try_into_range b n.
Print Assumptions C02_early_stop_never_changes_a_range.

Check C02_parser_output_qualifies :
  forall (s : bytes) (u : ublist), parse_ublist s = Some u ->
    exists l, from_vec l = Some u /\ Forall item_nz l.
Print Assumptions C02_parser_output_qualifies.
