(** Pins for C07: the statements written out, so that no theorem is weakened quietly. *)
From TucModel Require Import Base.Bytes Base.ListX Model.Scan Model.Utf8 Model.CutStr Proofs.ScanSplit Proofs.C07 Properties.C07.


Check C07_fields_are_the_characters :
  forall (line : bytes) (cs : list bytes),
    utf8_chars line = Some cs -> cs <> [] ->
    exists ms, char_matches line = Some ms
               /\ pieces line (drop_outer (fields_of_matches ms line)) = cs.
Print Assumptions C07_fields_are_the_characters.

Check C07_characters_tile_the_record :
  forall (fuel : nat) (l : bytes) (cs : list bytes),
    utf8_chars_fuel fuel l = Some cs -> concat cs = l /\ Forall (fun c => c <> []) cs.
Print Assumptions C07_characters_tile_the_record.
