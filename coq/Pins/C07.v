(** Pins for C07: the statements written out, so that no theorem is weakened quietly. *)
From TucModel Require Import Base.Bytes Base.ListX Model.Scan Model.Utf8 Model.CutStr Proofs.ScanSplit Proofs.C07 Proofs.C07More Proofs.C07Utf8 Properties.C07.


Check C07_fields_are_the_characters :
  forall (line : bytes) (cs : list bytes),
    utf8_chars line = Some cs -> cs <> [] ->
    exists ms, char_matches line = Some ms
               /\ pieces line (drop_outer (fields_of_matches ms line)) = cs.
Print Assumptions C07_fields_are_the_characters.

Check C07_characters_tile_the_record :
  forall (fuel : nat) (l : bytes) (cs : list bytes),
    utf8_chars_fuel fuel l = Some cs -> concat cs = l /\ Forall (fun c => c <> []) cs.
Print Assumptions C07_characters_tile_the_record.

Check C07_a_range_prints_exactly_the_selected_characters :
  forall (line : bytes) (cs : list bytes) (ms : list mtch) (s e a z : nat),
    utf8_chars line = Some cs -> char_matches line = Some ms ->
    s < e -> e <= length cs ->
    range_start (drop_outer (fields_of_matches ms line)) s = Some a ->
    range_end (drop_outer (fields_of_matches ms line)) (e - 1) = Some z ->
    slice line a z = concat (slice cs s e).
Print Assumptions C07_a_range_prints_exactly_the_selected_characters.

Check C07_characters_are_whole_scalars :
  forall (fuel : nat) (l : bytes) (cs : list bytes), utf8_chars_fuel fuel l = Some cs -> Forall scalar cs.
Print Assumptions C07_characters_are_whole_scalars.

Check C07_selected_characters_are_valid_utf8 :
  forall (line : bytes) (cs : list bytes) (s e : nat),
    utf8_chars line = Some cs -> utf8_valid (concat (slice cs s e)) = true.
Print Assumptions C07_selected_characters_are_valid_utf8.
