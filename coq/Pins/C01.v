(** Pins for C01: the statements written out, so that no theorem is weakened quietly. *)
From TucModel Require Import Base.Bytes Base.ListX Model.Bounds Model.BoundsParse Model.Scan Model.Opt
     Model.CutBytes Model.CutStr Spec.Fields Proofs.C06 Proofs.ScanSplit Proofs.Plain Properties.C01.


Check C01_fields_locations_are_fields :
  forall d line : bytes, d <> [] -> line <> [] ->
    is_split d line (pieces line (fields_of_matches (lit_matches d line) line)).
Print Assumptions C01_fields_locations_are_fields.

Check C01_offsets_equal_values :
  forall d line : bytes, d <> [] -> line <> [] ->
    pieces line (fields_of_matches (lit_matches d line) line) = split d line.
Print Assumptions C01_offsets_equal_values.

Check C01_split_is_leftmost_nonoverlapping :
  forall d line : bytes, d <> [] -> is_split d line (split d line).
Print Assumptions C01_split_is_leftmost_nonoverlapping.

Check C01_plain_record_is_exactly_the_requested_fields :
  forall (o : opt) (d : byte) (line : bytes),
    plain_opts o d -> o_trim o = None -> o_only_delimited o = false ->
    line <> [] -> Forall item_nz (items (o_bounds o)) ->
    cut_str o line
    = Some (match spec_items (split_on d line) (o_fallback o) (o_join o) (rep_of o d) (items (o_bounds o)) with
            | Some x => ROk (x ++ [o_eol o])
            | None => RErr
            end).
Print Assumptions C01_plain_record_is_exactly_the_requested_fields.

Check C01_replacement_rewrites_exactly_the_separators :
  forall (d : byte) (rep : bytes) (fs : list bytes), fs <> [] -> Forall (dfree d) fs ->
    replace_matches (intercalate [d] fs) (lit_matches [d] (intercalate [d] fs)) rep = intercalate rep fs.
Print Assumptions C01_replacement_rewrites_exactly_the_separators.
