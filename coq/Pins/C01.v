(** Pins for C01: the statements written out, so that no theorem is weakened quietly. *)
From TucModel Require Import Base.Bytes Base.ListX Model.Bounds Model.BoundsParse Model.Scan Model.Opt
     Model.CutBytes Model.CutStr Spec.Fields Proofs.C06 Proofs.ScanSplit Proofs.Plain Proofs.C01More Proofs.PlainMulti Proofs.Greedy Properties.C01.


Check C01_fields_locations_are_fields :
  forall d line : bytes, d <> [] -> line <> [] ->
    is_split d line (pieces line (fields_of_matches (lit_matches d line) line)).
Print Assumptions C01_fields_locations_are_fields.

Check C01_offsets_equal_values :
  forall d line : bytes, d <> [] -> line <> [] ->
    pieces line (fields_of_matches (lit_matches d line) line) = split d line.
Print Assumptions C01_offsets_equal_values.

Check C01_split_is_leftmost_nonoverlapping :
  forall d line : bytes, d <> [] -> is_split d line (split d line).
Print Assumptions C01_split_is_leftmost_nonoverlapping.

Check C01_plain_record_is_exactly_the_requested_fields :
  forall (o : opt) (d : byte) (line : bytes),
    plain_opts o d -> o_trim o = None -> o_only_delimited o = false ->
    line <> [] -> Forall item_nz (items (o_bounds o)) ->
    cut_str o line
    = Some (match spec_items (split_on d line) (o_fallback o) (o_join o) (rep_of o d) (items (o_bounds o)) with
            | Some x => ROk (x ++ [o_eol o])
            | None => RErr
            end).
Print Assumptions C01_plain_record_is_exactly_the_requested_fields.

Check C01_replacement_rewrites_exactly_the_separators :
  forall (d : byte) (rep : bytes) (fs : list bytes), fs <> [] -> Forall (dfree d) fs ->
    replace_matches (intercalate [d] fs) (lit_matches [d] (intercalate [d] fs)) rep = intercalate rep fs.
Print Assumptions C01_replacement_rewrites_exactly_the_separators.

Check C01_fields_are_unique :
  forall d : bytes, d <> [] -> forall (ps : list bytes) (line : bytes), is_split d line ps -> split d line = ps.
Print Assumptions C01_fields_are_unique.

Check C01_greedy_fields :
  forall d line : bytes, d <> [] -> line <> [] ->
    pieces line (fields_of_matches (merge_adjacent (lit_matches d line)) line) = squeeze (split d line).
Print Assumptions C01_greedy_fields.

Check C01_compress_collapses_runs :
  forall d line : bytes, d <> [] -> line <> [] ->
    compress_delimiter d line = intercalate d (squeeze (split d line)).
Print Assumptions C01_compress_collapses_runs.

Check C01_compress_then_split :
  forall d line : bytes, d <> [] -> line <> [] ->
    split d (compress_delimiter d line) = squeeze (split d line).
Print Assumptions C01_compress_then_split.

Check C01_trim_left :
  forall d l : bytes, d <> [] ->
    exists k, l = copies d k ++ trim_left d l /\ strip_prefix d (trim_left d l) = None.
Print Assumptions C01_trim_left.

Check C01_trim_right :
  forall d l : bytes, d <> [] ->
    exists k, l = trim_right d l ++ copies d k /\ forall x, trim_right d l <> x ++ d.
Print Assumptions C01_trim_right.

Check C01_one_field_iff_no_delimiter :
  forall d line : bytes, d <> [] -> (length (split d line) = 1 <-> ~ occurs_in d line).
Print Assumptions C01_one_field_iff_no_delimiter.

Check C01_general_path_stages :
  forall (o : opt) (line0 : bytes),
    o_regex o = None -> o_btype o = BFields -> o_json o = false ->
    cut_str o line0
    = Some (let line1 := match o_trim o with
                         | None => line0
                         | Some k => trim_lit k (o_delim o) line0
                         end in
            match line1 with
            | [] => ROk (if o_only_delimited o then [] else [o_eol o])
            | _ => finish_record o (fst (lit_stage o line1)) (snd (lit_stage o line1))
            end).
Print Assumptions C01_general_path_stages.

Check C01_staged_fields_are_the_fields :
  forall (o : opt) (line1 : bytes), o_delim o <> [] -> line1 <> [] ->
    pieces (fst (lit_stage o line1)) (snd (lit_stage o line1)) = spec_fields o line1.
Print Assumptions C01_staged_fields_are_the_fields.

Check C01_record_as_a_function_of_its_fields :
  forall (o : opt) (line0 : bytes),
    value_opts o -> Forall item_nz (items (o_bounds o)) ->
    cut_str o line0
    = Some (let line1 := match o_trim o with Some k => trim_lit k (o_delim o) line0 | None => line0 end in
            match line1 with
            | [] => ROk (if o_only_delimited o then [] else [o_eol o])
            | _ =>
                let fs := if o_compress o then squeeze (split (o_delim o) line1) else split (o_delim o) line1 in
                if o_only_delimited o && Nat.eqb (length fs) 1 then ROk []
                else match effective_bounds o (length fs) with
                     | None => RErr
                     | Some bs =>
                         match spec_items fs (o_fallback o) (o_join o) (rep_of' o) bs with
                         | Some x => ROk (x ++ [o_eol o])
                         | None => RErr
                         end
                     end
            end).
Print Assumptions C01_record_as_a_function_of_its_fields.

Check C01_record_as_a_function_of_its_fields_greedy :
  forall (o : opt) (line0 : bytes),
    greedy_opts o -> Forall item_nz (items (o_bounds o)) ->
    cut_str o line0
    = Some (let d := o_delim o in
            let line1 := match o_trim o with Some k => trim_lit k d line0 | None => line0 end in
            match line1 with
            | [] => ROk (if o_only_delimited o then [] else [o_eol o])
            | _ =>
                let ps := if o_compress o then squeeze (split d line1) else split d line1 in
                let ks := kept_v ps in
                if o_only_delimited o && Nat.eqb (length ks) 1 then ROk []
                else match effective_bounds o (length ks) with
                     | None => RErr
                     | Some bs =>
                         match spec_items_g ps ks (o_fallback o) (o_join o) (rep_of' o) bs with
                         | Some x => ROk (x ++ [o_eol o])
                         | None => RErr
                         end
                     end
            end).
Print Assumptions C01_record_as_a_function_of_its_fields_greedy.

Check C01_greedy_counted_fields_are_the_squeezed_ones :
  forall ps : list bytes, map (fun k => nth k ps []) (kept_v ps) = squeeze ps.
Print Assumptions C01_greedy_counted_fields_are_the_squeezed_ones.

Check C01_replacement_rewrites_exactly_the_separators_any_delimiter :
  forall (d rep : bytes) (fs : list bytes), d <> [] -> fs <> [] -> leftmost_fields d fs ->
    replace_matches (intercalate d fs) (lit_matches d (intercalate d fs)) rep = intercalate rep fs.
Print Assumptions C01_replacement_rewrites_exactly_the_separators_any_delimiter.
