(** Pins for C01: the statements written out, so that no theorem is weakened quietly. *)
From TucModel Require Import Base.Bytes Base.ListX Model.Scan Spec.Fields Proofs.ScanSplit Properties.C01.


Check C01_fields_locations_are_fields :
  forall d line : bytes, d <> [] -> line <> [] ->
    is_split d line (pieces line (fields_of_matches (lit_matches d line) line)).
Print Assumptions C01_fields_locations_are_fields.

Check C01_offsets_equal_values :
  forall d line : bytes, d <> [] -> line <> [] ->
    pieces line (fields_of_matches (lit_matches d line) line) = split d line.
Print Assumptions C01_offsets_equal_values.

Check C01_split_is_leftmost_nonoverlapping :
  forall d line : bytes, d <> [] -> is_split d line (split d line).
Print Assumptions C01_split_is_leftmost_nonoverlapping.
