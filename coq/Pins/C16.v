(** Pins for C16: the statements written out, so that no theorem is weakened quietly. *)
From TucModel Require Import Base.Bytes Base.ListX Model.Bounds Model.Scan Model.Regex Model.Opt Model.CutStr
     Spec.RegexLang Spec.Fields Proofs.C06 Proofs.ScanSplit Proofs.C12 Proofs.C16 Proofs.C16Sem Proofs.C16Replace Properties.C16.


Check C16_engine_is_sound :
  forall (r : re) (l : bytes) (n : nat), match_len r l = Some n -> n <= length l /\ re_lang r (firstn n l).
Print Assumptions C16_engine_is_sound.

Check C16_engine_is_complete :
  forall (r : re) (l : bytes), match_len r l = None -> forall u s', l = u ++ s' -> ~ re_lang r u.
Print Assumptions C16_engine_is_complete.

Check C16_matches_are_the_leftmost_nonoverlapping_ones :
  forall (r : re) (l : bytes), scan_ok r 0 0 l (re_find_iter r l).
Print Assumptions C16_matches_are_the_leftmost_nonoverlapping_ones.

Check C16_matches_are_well_formed :
  forall (r : re) (line : bytes),
    wf_ms 0 (re_find_iter r line) (length line) /\ Forall (fun m => fst m < snd m) (re_find_iter r line).
Print Assumptions C16_matches_are_well_formed.

Check C16_fields_and_matches_tile_the_record :
  forall (r : re) (line : bytes), weave line 0 (re_find_iter r line) (length line) = line.
Print Assumptions C16_fields_and_matches_tile_the_record.

Check C16_greedy_fields_tile_the_record :
  forall (r : re) (line : bytes), weave line 0 (re_find_iter (RPlus r) line) (length line) = line.
Print Assumptions C16_greedy_fields_tile_the_record.

Check C16_tiling_for_any_matcher :
  forall (line : bytes) (ms : list mtch) (start len : nat),
    wf_ms start ms len -> weave line start ms len = slice line start len.
Print Assumptions C16_tiling_for_any_matcher.

Check C16_no_index_out_of_range :
  forall (o : opt) (line : bytes) (ms : list mtch) (bs : list bof),
    line <> [] -> wf_ms 0 ms (length line) -> Forall item_nz bs ->
    out_loop o line (fields_of_matches ms line) bs <> RPanic.
Print Assumptions C16_no_index_out_of_range.

Check C16_replacement_is_the_literal_text :
  forall (line rep : bytes) (ms : list mtch),
    replace_matches line ms rep = intercalate rep (pieces line (gaps_from 0 ms (length line))).
Print Assumptions C16_replacement_is_the_literal_text.

Check C16_selected_text_is_rejoined_with_R :
  forall (o : opt) (x : rx) (nd text : bytes) (ms : list mtch),
    o_btype o <> BChars -> o_replace o = Some nd -> o_regex o = Some x -> o_compress o = false ->
    rx_normal x text = Some ms ->
    maybe_replace o text = Some (intercalate nd (pieces text (gaps_from 0 ms (length text)))).
Print Assumptions C16_selected_text_is_rejoined_with_R.

Check C16_after_compress_the_text_is_printed_as_it_is :
  forall (o : opt) (x : rx) (nd text : bytes),
    o_replace o = Some nd -> o_regex o = Some x -> o_compress o = true -> maybe_replace o text = Some text.
Print Assumptions C16_after_compress_the_text_is_printed_as_it_is.
