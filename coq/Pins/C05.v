(** Pins for C05: the statements written out, so that no theorem is weakened quietly. *)
From TucModel Require Import Base.Bytes Base.ListX Model.Bounds Model.BoundsParse Model.Scan Model.Utf8 Model.Opt
     Model.CutBytes Model.CutStr Model.CutLines Spec.Fields Proofs.C06 Proofs.ScanSplit Proofs.C05 Proofs.Plain
     Proofs.C03Full Proofs.C05Full Properties.C05.
Local Open Scope Z_scope.

Check C05_forward_reader_prints_the_selection :
  forall (o : opt) (L : list bytes) (bs : list bof),
    L <> [] -> bs <> [] -> fwd_ok 1 (Z.of_nat (length L)) bs -> last_marked bs ->
    Forall (fun l => utf8_valid l = true) L ->
    exists x, spec_items L (o_fallback o) (o_join o) [o_eol o] bs = Some x
              /\ fwd_lines o L bs false 0 [] = Done (x ++ [o_eol o]).
Print Assumptions C05_forward_reader_prints_the_selection.

Check C05_buffered_reader_prints_the_same :
  forall (o : opt) (input : bytes) (bs : list bof) (x : bytes),
    plain_opts o (o_eol o) -> o_trim o = None -> o_only_delimited o = false -> o_replace o = None ->
    items (o_bounds o) = bs -> Forall item_nz bs ->
    utf8_valid input = true -> input <> [] -> strip_one_suffix (o_eol o) input <> [] ->
    spec_items (records (o_eol o) input) (o_fallback o) (o_join o) [o_eol o] bs = Some x ->
    cut_lines_buffered o input = Some (Done (x ++ [o_eol o])).
Print Assumptions C05_buffered_reader_prints_the_same.

Check C05_lines_of_the_forward_reader :
  forall (eol : byte) (input : bytes), records eol input = drop_last_empty (split_on eol input).
Print Assumptions C05_lines_of_the_forward_reader.

Check C05_both_algorithms_see_the_same_lines :
  forall (eol : byte) (input : bytes), input <> [] ->
    split_on eol (strip_one_suffix eol input) = records eol input.
Print Assumptions C05_both_algorithms_see_the_same_lines.

Check C05_buffered_fields_are_lines :
  forall (eol : byte) (input : bytes),
    input <> [] -> strip_one_suffix eol input <> [] ->
    pieces (strip_one_suffix eol input)
           (fields_of_matches (lit_matches [eol] (strip_one_suffix eol input)) (strip_one_suffix eol input))
    = records eol input.
Print Assumptions C05_buffered_fields_are_lines.
