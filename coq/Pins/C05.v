(** Pins for C05: the statements written out, so that no theorem is weakened quietly. *)
From TucModel Require Import Base.Bytes Base.ListX Model.Bounds Model.BoundsParse Model.Scan Model.Opt
     Model.CutBytes Model.CutStr Model.CutLines Spec.Fields Proofs.ScanSplit Proofs.C05 Properties.C05.


Check C05_lines_of_the_forward_reader :
  forall (eol : byte) (input : bytes), records eol input = drop_last_empty (split_on eol input).
Print Assumptions C05_lines_of_the_forward_reader.

Check C05_both_algorithms_see_the_same_lines :
  forall (eol : byte) (input : bytes), input <> [] ->
    split_on eol (strip_one_suffix eol input) = records eol input.
Print Assumptions C05_both_algorithms_see_the_same_lines.

Check C05_buffered_fields_are_lines :
  forall (eol : byte) (input : bytes),
    input <> [] -> strip_one_suffix eol input <> [] ->
    pieces (strip_one_suffix eol input)
           (fields_of_matches (lit_matches [eol] (strip_one_suffix eol input)) (strip_one_suffix eol input))
    = records eol input.
Print Assumptions C05_buffered_fields_are_lines.
