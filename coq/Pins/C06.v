(** Pins for C06: the statements written out, so that a theorem cannot be weakened quietly. *)
From TucModel Require Import Base.Bytes Model.Bounds Model.CutBytes Spec.Resolve Spec.BytesMode
     Proofs.BoundsFacts Proofs.C06 Properties.C06.

Check C06_byte_mode_exact :
  forall (l : ublist) (generic : option bytes) (data : bytes),
    data <> [] ->
    Forall item_nz (items l) ->
    Forall (item_resolves (length data)) (items l) ->
    cut_bytes l generic data = Done (spec_bytes (items l) data).
Print Assumptions C06_byte_mode_exact.

Check C06_empty_input :
  forall (l : ublist) (generic : option bytes), cut_bytes l generic [] = Done [].
Print Assumptions C06_empty_input.
