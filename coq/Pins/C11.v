(** Pins for C11: the statements written out, so that no theorem is weakened quietly. *)
From TucModel Require Import Base.Bytes Base.ListX Model.Bounds Model.Scan Model.Utf8 Model.Regex Model.Opt Model.CutStr
     Model.FastLane Model.CutLines Model.Stream Proofs.C06 Proofs.C11 Proofs.C11Run Proofs.C11Utf8 Proofs.C11Stream Proofs.C11Lines Properties.C11.


Check C11_records :
  forall (eol : byte) (l : bytes), records (swap eol) (map swap l) = map (map swap) (records eol l).
Print Assumptions C11_records.

Check C11_record_splitting_is_value_blind :
  forall f : byte -> byte, (forall a b, f a = f b -> a = b) ->
  forall (eol : byte) (l : bytes), records (f eol) (map f l) = map (map f) (records eol l).
Print Assumptions C11_record_splitting_is_value_blind.

Check C11_field_locations_are_value_blind :
  forall f : byte -> byte, (forall a b, f a = f b -> a = b) ->
  forall d line : bytes,
    fields_of_matches (lit_matches (map f d) (map f line)) (map f line)
    = fields_of_matches (lit_matches d line) line.
Print Assumptions C11_field_locations_are_value_blind.

Check C11_greedy_field_locations_are_value_blind :
  forall f : byte -> byte, (forall a b, f a = f b -> a = b) ->
  forall d line : bytes,
    fields_of_matches (merge_adjacent (lit_matches (map f d) (map f line))) (map f line)
    = fields_of_matches (merge_adjacent (lit_matches d line)) line.
Print Assumptions C11_greedy_field_locations_are_value_blind.

Check C11_trim_is_value_blind :
  forall f : byte -> byte, (forall a b, f a = f b -> a = b) ->
  forall (k : trimk) (d l : bytes), trim_lit k (map f d) (map f l) = map f (trim_lit k d l).
Print Assumptions C11_trim_is_value_blind.

Check C11_compress_is_value_blind :
  forall f : byte -> byte, (forall a b, f a = f b -> a = b) ->
  forall d line : bytes, compress_delimiter (map f d) (map f line) = map f (compress_delimiter d line).
Print Assumptions C11_compress_is_value_blind.

Check C11_swap_is_a_renaming :
  forall a b : byte, swap a = swap b -> a = b.
Print Assumptions C11_swap_is_a_renaming.

Check C11_general_path :
  forall (o : opt) (input : bytes),
    o_regex o = None -> o_json o = false -> neutral_texts o ->
    read_and_cut_str (with_eol (swap (o_eol o)) o) (map swap input)
    = option_map (rename_outcome swap) (read_and_cut_str o input).
Print Assumptions C11_general_path.

Check C11_general_path_is_value_blind :
  forall f : byte -> byte, (forall a b, f a = f b -> a = b) ->
  forall (o : opt) (input : bytes), o_regex o = None -> o_json o = false ->
    read_and_cut_str (rename_opt f o) (map f input)
    = option_map (rename_outcome f) (read_and_cut_str o input).
Print Assumptions C11_general_path_is_value_blind.

Check C11_fast_lane :
  forall (o : opt) (l : list bof) (input : bytes),
    fast_eligible o = true -> from_vec l = Some (o_bounds o) -> Forall item_nz l -> neutral_texts o ->
    read_and_cut_fast (with_eol (swap (o_eol o)) o) (map swap input)
    = option_map (rename_outcome swap) (read_and_cut_fast o input).
Print Assumptions C11_fast_lane.

Check C11_fixed_memory :
  forall (o : opt) (input : bytes),
    neutral_texts o ->
    match stream_opt o, stream_opt (with_eol (swap (o_eol o)) o) with
    | Some so, Some so' => run_stream_whole so' (map swap input) = rename_outcome swap (run_stream_whole so input)
    | None, None => True
    | _, _ => False
    end.
Print Assumptions C11_fixed_memory.

Check C11_line_mode :
  forall (o : opt) (input : bytes),
    o_regex o = None -> o_json o = false -> neutral_line_texts o ->
    read_and_cut_lines (with_line_eol (swap (o_eol o)) o) (map swap input)
    = option_map (rename_outcome swap) (read_and_cut_lines o input).
Print Assumptions C11_line_mode.

Check C11_character_mode :
  forall (o : opt) (input : bytes),
    o_regex o = Some RxChars -> o_btype o = BChars -> o_json o = false -> neutral_texts o ->
    read_and_cut_str (with_eol (swap (o_eol o)) o) (map swap input)
    = option_map (rename_outcome swap) (read_and_cut_str o input).
Print Assumptions C11_character_mode.

Check C11_exchange_keeps_utf8 :
  forall l : bytes, utf8_valid (map swap l) = utf8_valid l.
Print Assumptions C11_exchange_keeps_utf8.
