(** Pins for C09: the statements written out, so that no theorem is weakened quietly. *)
From TucModel Require Import Base.Bytes Model.Bounds Model.CutBytes Model.Scan Model.Opt Model.CutStr
     Model.FastLane Spec.Resolve Proofs.BoundsFacts Proofs.C09 Proofs.C01More Proofs.C09More Properties.C09.
Local Open Scope Z_scope.

Check C09_range_unchanged :
  forall (n : nat) (b b' : ubound),
    bound_rewrites (Z.of_nat n) b b' -> try_into_range b' n = try_into_range b n.
Print Assumptions C09_range_unchanged.

Check C09_unpack_unchanged :
  forall (n : nat) (b b' : ubound),
    bound_rewrites (Z.of_nat n) b b' ->
    match try_into_range b n with
    | Some _ => unpack_bound b' n = unpack_bound b n
    | None => unpack_bound b' n = [b'] /\ unpack_bound b n = [b]
    end.
Print Assumptions C09_unpack_unchanged.

Check C09_complement_unchanged :
  forall (n : nat) (b b' : ubound),
    bound_rewrites (Z.of_nat n) b b' -> complement_bound b' n = complement_bound b n.
Print Assumptions C09_complement_unchanged.

Check C09_byte_mode :
  forall (l l' : list bof) (generic : option bytes) (data : bytes),
    items_rewrite (Z.of_nat (length data)) l l' ->
    cut_bytes_items l' generic data = cut_bytes_items l generic data.
Print Assumptions C09_byte_mode.

Check C09_field_mode_general :
  forall (o : opt) (line : bytes) (fields : list mtch) (l l' : list bof),
    items_rewrite (Z.of_nat (length fields)) l l' ->
    out_loop o line fields l' = out_loop o line fields l.
Print Assumptions C09_field_mode_general.

Check C09_field_mode_fast :
  forall (o : opt) (d : byte) (line : bytes) (fields : list nat) (l l' : list bof),
    items_rewrite (Z.of_nat (length fields - 1)) l l' ->
    fast_out o d line fields l' = fast_out o d line fields l.
Print Assumptions C09_field_mode_fast.

Check C09_whole_record :
  forall (o : opt) (u' : ublist) (line0 : bytes),
    o_regex o = None -> o_btype o = BFields -> o_json o = false ->
    (forall line1, line1 <> [] ->
       items_rewrite (Z.of_nat (length (snd (lit_stage o line1)))) (items (o_bounds o)) (items u')) ->
    cut_str (with_bounds u' o) line0 = cut_str o line0.
Print Assumptions C09_whole_record.

Check C09_complement_list :
  forall (n : nat) (l l' : list bof),
    items_rewrite (Z.of_nat n) l l' ->
    match complement_list l n, complement_list l' n with
    | Some u, Some u' => items_rewrite (Z.of_nat n) (items u) (items u')
    | None, None => True
    | _, _ => False
    end.
Print Assumptions C09_complement_list.

Check C09_minus_one_is_last :
  forall n : nat, (0 < n)%nat ->
    try_into_range (mkB (SSome (-1)) (SSome (-1)) false None) n = Some ((n - 1)%nat, n).
Print Assumptions C09_minus_one_is_last.

Check C09_minus_n_is_first :
  forall n : nat, (0 < n)%nat ->
    try_into_range (mkB (SSome (- Z.of_nat n)) (SSome (- Z.of_nat n)) false None) n = Some (0%nat, 1%nat).
Print Assumptions C09_minus_n_is_first.
