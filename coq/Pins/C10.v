(** Pins for C10: the statements written out, so that no theorem is weakened quietly. *)
From TucModel Require Import Base.Bytes Model.Bounds Model.Scan Model.Opt Model.CutBytes Model.CutStr
     Model.FastLane Proofs.C10 Properties.C10.


Check C10_general_path :
  forall (o : opt) (A B : bytes),
    read_and_cut_str o ((A ++ [o_eol o]) ++ B)
    = seq_outcome (read_and_cut_str o (A ++ [o_eol o])) (read_and_cut_str o B).
Print Assumptions C10_general_path.

Check C10_fast_path :
  forall (o : opt) (A B : bytes),
    read_and_cut_fast o ((A ++ [o_eol o]) ++ B)
    = seq_outcome (read_and_cut_fast o (A ++ [o_eol o])) (read_and_cut_fast o B).
Print Assumptions C10_fast_path.

Check C10_failure_is_preserved :
  forall (o : opt) (A B pre : bytes),
    read_and_cut_str o (A ++ [o_eol o]) = Some (Fail pre) ->
    read_and_cut_str o ((A ++ [o_eol o]) ++ B) = Some (Fail pre).
Print Assumptions C10_failure_is_preserved.

Check C10_failure_is_preserved_fast :
  forall (o : opt) (A B pre : bytes),
    read_and_cut_fast o (A ++ [o_eol o]) = Some (Fail pre) ->
    read_and_cut_fast o ((A ++ [o_eol o]) ++ B) = Some (Fail pre).
Print Assumptions C10_failure_is_preserved_fast.
