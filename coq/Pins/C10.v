(** Pins for C10: the statements written out, so that no theorem is weakened quietly. *)
From TucModel Require Import Base.Bytes Model.Bounds Model.Scan Model.Opt Model.CutBytes Model.CutStr
     Model.FastLane Model.Stream Proofs.C04 Proofs.C10 Proofs.C10Stream Model.Scratch Proofs.C10Scratch Properties.C10.


Check C10_general_path :
  forall (o : opt) (A B : bytes),
    read_and_cut_str o ((A ++ [o_eol o]) ++ B)
    = seq_outcome (read_and_cut_str o (A ++ [o_eol o])) (read_and_cut_str o B).
Print Assumptions C10_general_path.

Check C10_fast_path :
  forall (o : opt) (A B : bytes),
    read_and_cut_fast o ((A ++ [o_eol o]) ++ B)
    = seq_outcome (read_and_cut_fast o (A ++ [o_eol o])) (read_and_cut_fast o B).
Print Assumptions C10_fast_path.

Check C10_failure_is_preserved :
  forall (o : opt) (A B pre : bytes),
    read_and_cut_str o (A ++ [o_eol o]) = Some (Fail pre) ->
    read_and_cut_str o ((A ++ [o_eol o]) ++ B) = Some (Fail pre).
Print Assumptions C10_failure_is_preserved.

Check C10_failure_is_preserved_fast :
  forall (o : opt) (A B pre : bytes),
    read_and_cut_fast o (A ++ [o_eol o]) = Some (Fail pre) ->
    read_and_cut_fast o ((A ++ [o_eol o]) ++ B) = Some (Fail pre).
Print Assumptions C10_failure_is_preserved_fast.

Check C10_fixed_memory_is_per_record :
  forall (so : sopt) (input : bytes),
    no_adjacent_fillers (s_items so) ->
    Some (run_stream_whole so input) = run_records (stream_cut so) (records (s_eol so) input) [].
Print Assumptions C10_fixed_memory_is_per_record.

Check C10_fixed_memory :
  forall (so : sopt) (A B : bytes),
    no_adjacent_fillers (s_items so) ->
    Some (run_stream_whole so ((A ++ [s_eol so]) ++ B))
    = seq_outcome (Some (run_stream_whole so (A ++ [s_eol so]))) (Some (run_stream_whole so B)).
Print Assumptions C10_fixed_memory.

Check C10_fixed_memory_any_chunking :
  forall (so : sopt) (A B : bytes) (cs csA csB : list bytes),
    no_adjacent_fillers (s_items so) ->
    chunks_ok cs -> chunks_ok csA -> chunks_ok csB ->
    concat cs = (A ++ [s_eol so]) ++ B -> concat csA = A ++ [s_eol so] -> concat csB = B ->
    Some (run_stream so cs) = seq_outcome (Some (run_stream so csA)) (Some (run_stream so csB)).
Print Assumptions C10_fixed_memory_any_chunking.

Check C10_failure_is_preserved_fixed_memory :
  forall (so : sopt) (A B pre : bytes),
    no_adjacent_fillers (s_items so) ->
    run_stream_whole so (A ++ [s_eol so]) = Fail pre ->
    run_stream_whole so ((A ++ [s_eol so]) ++ B) = Fail pre.
Print Assumptions C10_failure_is_preserved_fixed_memory.

Check C10_a_record_ignores_the_scratch_buffers :
  forall (s s' : scratch) (o : opt) (line : bytes),
    fst (cut_str_st s o line) = fst (cut_str_st s' o line)
    /\ fst (cut_fast_st s o line) = fst (cut_fast_st s' o line).
Print Assumptions C10_a_record_ignores_the_scratch_buffers.

Check C10_general_path_with_reused_buffers :
  forall (o : opt) (input : bytes), read_and_cut_str_st o input = read_and_cut_str o input.
Print Assumptions C10_general_path_with_reused_buffers.

Check C10_fast_path_with_reused_buffers :
  forall (o : opt) (input : bytes), read_and_cut_fast_st o input = read_and_cut_fast o input.
Print Assumptions C10_fast_path_with_reused_buffers.
