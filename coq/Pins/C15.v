(** Pins for C15: the statements written out, so that no theorem is weakened quietly. *)
From TucModel Require Import Base.Bytes Base.ListX Model.Bounds Model.CutBytes Model.Scan Model.Opt
     Model.CutStr Spec.Resolve Proofs.BoundsFacts Proofs.C06 Proofs.C15 Proofs.C01More Proofs.C09More Proofs.C15More Properties.C15.


Check C15_complement_of_a_bound :
  forall (b : ubound) (n s e : nat),
    bound_nz b -> try_into_range b n = Some (s, e) ->
    exists cs, complement_bound b n = Some cs
               /\ map (fun c => try_into_range c n) cs = map Some (complement_spec n s e)
               /\ Forall (fun c => bfb c = None /\ blast c = false) cs.
Print Assumptions C15_complement_of_a_bound.

Check C15_selected_parts :
  forall (A : Type) (parts : list A) (s e : nat), (s < e <= length parts)%nat ->
    concat (map (fun r => slice parts (fst r) (snd r)) (complement_spec (length parts) s e))
    = firstn s parts ++ skipn e parts.
Print Assumptions C15_selected_parts.

Check C15_nothing_left_out_fails :
  forall (l : list bof) (n : nat),
    Forall (fun x => match x with Bound b => try_into_range b n = Some (0%nat, n) | Filler _ => True end) l ->
    complement_list l n = None.
Print Assumptions C15_nothing_left_out_fails.

Check C15_complement_is_the_explicit_request :
  forall (o : opt) (line : bytes) (fields : list mtch) (u : ublist),
    o_complement o = true ->
    complement_list (items (o_bounds o)) (length fields) = Some u ->
    finish_record o line fields = finish_record (with_bounds u (without_complement o)) line fields.
Print Assumptions C15_complement_is_the_explicit_request.

Check C15_nothing_left_fails_the_record :
  forall (o : opt) (line : bytes) (fields : list mtch),
    o_complement o = true ->
    complement_list (items (o_bounds o)) (length fields) = None ->
    (o_only_delimited o && Nat.eqb (length fields) 1) = false ->
    finish_record o line fields = RErr.
Print Assumptions C15_nothing_left_fails_the_record.
