(** Pins for C08: the statements written out, so that no theorem is weakened quietly. *)
From TucModel Require Import Base.Bytes Model.Json Spec.JsonSpec Proofs.C08 Properties.C08.


Check C08_element_roundtrip :
  forall s : bytes, json_read_string (json_string s) = Some s.
Print Assumptions C08_element_roundtrip.

Check C08_escape_roundtrip :
  forall s : bytes, json_unescape (flat_map json_escape_byte s) = Some s.
Print Assumptions C08_escape_roundtrip.
