(** Pins for C08: the statements written out, so that no theorem is weakened quietly. *)
From TucModel Require Import Base.Bytes Model.Bounds Model.BoundsParse Model.Scan Model.Utf8 Model.Json Model.Opt
     Model.CutStr Spec.JsonSpec Spec.Fields Spec.JsonArray Proofs.BoundsFacts Proofs.C08 Proofs.C08Array Proofs.C08Record Model.Args Properties.C08.


Check C08_element_roundtrip :
  forall s : bytes, json_read_string (json_string s) = Some s.
Print Assumptions C08_element_roundtrip.

Check C08_escape_roundtrip :
  forall s : bytes, json_unescape (flat_map json_escape_byte s) = Some s.
Print Assumptions C08_escape_roundtrip.

Check C08_array_roundtrip :
  forall parts : list bytes, json_read_array (json_array_line parts) = Some parts.
Print Assumptions C08_array_roundtrip.

Check C08_one_element_per_part :
  forall (o : opt) (line : bytes) (fields : list mtch) (bs : list ubound) (l2 : list bof) (body : bytes),
  json_opts o ->
  Forall bound_nz bs -> unmarked_init bs -> set_last_flag bs = bs ->
  (if needs_unpack (map Bound bs)
   then option_map items (unpack_list (map Bound bs) (length fields))
   else Some (map Bound bs)) = Some l2 ->
  out_loop o line fields l2 = ROk body ->
  exists pss, Forall2 (bound_elems o line fields) bs pss
              /\ body = intercalate [ch_comma] (map json_string (concat pss)).
Print Assumptions C08_one_element_per_part.

Check C08_record_is_one_array :
  forall (o : opt) (rec out : bytes) (bs0 : list ubound),
  json_opts o -> plain_bounds (items (o_bounds o)) bs0 ->
  cut_str o rec = Some (ROk out) ->
  (out = [] /\ o_only_delimited o = true)
  \/ (out = [o_eol o] /\ (o_trim o = None -> rec = []))
  \/ exists line fields bs pss,
       (o_complement o = false -> bs = bs0)
       /\ Forall2 (bound_elems o line fields) bs pss
       /\ out = json_array_line (concat pss) ++ [o_eol o].
Print Assumptions C08_record_is_one_array.

Check C08_nonempty_record_decodes :
  forall (o : opt) (rec out : bytes) (bs0 : list ubound),
  json_opts o -> plain_bounds (items (o_bounds o)) bs0 ->
  o_trim o = None -> o_only_delimited o = false -> rec <> [] ->
  cut_str o rec = Some (ROk out) ->
  exists line fields bs pss,
    (o_complement o = false -> bs = bs0)
    /\ Forall2 (bound_elems o line fields) bs pss
    /\ out = json_array_line (concat pss) ++ [o_eol o]
    /\ json_read_array (json_array_line (concat pss)) = Some (concat pss).
Print Assumptions C08_nonempty_record_decodes.

Check C08_parsed_bounds_are_plain :
  forall (s : bytes) (u : ublist),
  existsb is_brace s = false -> parse_ublist s = Some u -> exists bs, plain_bounds (items u) bs.
Print Assumptions C08_parsed_bounds_are_plain.
