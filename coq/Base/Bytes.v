(** Shared vocabulary: bytes are [N], byte strings are [list N].
    Nothing in the cutting logic depends on a byte being < 256, so theorems are
    stated for every [N]; where the value matters a guard appears explicitly. *)
From Coq Require Export List NArith ZArith Bool Arith Lia.
Export ListNotations.

Notation byte := N (only parsing).
Notation bytes := (list N) (only parsing).

Definition beqb (a b : byte) : bool := N.eqb a b.

Fixpoint bytes_eqb (a b : bytes) : bool :=
  match a, b with
  | [], [] => true
  | x :: a', y :: b' => N.eqb x y && bytes_eqb a' b'
  | _, _ => false
  end.

(** [strip_prefix d l = Some rest] iff [l = d ++ rest]. *)
Fixpoint strip_prefix (d l : bytes) : option bytes :=
  match d with
  | [] => Some l
  | x :: d' =>
      match l with
      | [] => None
      | y :: l' => if N.eqb x y then strip_prefix d' l' else None
      end
  end.

Definition starts_with (d l : bytes) : bool :=
  match strip_prefix d l with Some _ => true | None => false end.

(** slice [a, b) of a list; total: out-of-range indices are clipped
    (the models that call it guard the indices explicitly where the
    Rust code would panic). *)
Definition slice {A} (l : list A) (a b : nat) : list A := firstn (b - a) (skipn a l).

(** ASCII helpers *)
Definition LF : byte := 10%N.
Definition NUL : byte := 0%N.
Definition TAB : byte := 9%N.
Definition ch_comma : byte := 44%N.
Definition ch_colon : byte := 58%N.
Definition ch_eq : byte := 61%N.
Definition ch_minus : byte := 45%N.
Definition ch_plus : byte := 43%N.
Definition ch_lbrace : byte := 123%N.
Definition ch_rbrace : byte := 125%N.
Definition ch_backslash : byte := 92%N.
Definition ch_n : byte := 110%N.
Definition ch_t : byte := 116%N.
Definition ch_lbracket : byte := 91%N.
Definition ch_rbracket : byte := 93%N.
Definition ch_quote : byte := 34%N.

(** Outcome of running (a model of) tuc.
    [Done out]    : exit status 0, [out] is the whole of stdout.
    [Fail pre]    : exit status 1; [pre] is the output of the records completed
                    before the failing one (what C10/C14 speak about).  What the
                    failing record itself had already emitted is not modelled.
    [Panic], [Hang] : abnormal termination / non-termination (C12 says unreachable). *)
Inductive outcome :=
| Done (out : bytes)
| Fail (pre : bytes)
| Panic
| Hang.

(** Result of cutting one record. *)
Inductive rres :=
| ROk (out : bytes)
| RErr
| RPanic
| RHang.
