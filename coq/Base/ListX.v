(** List lemmas missing from the 8.16 standard library *)
From Coq Require Import List Arith Lia.
Import ListNotations.

Lemma nth_firstn_lt {A} (l : list A) k m d : k < m -> nth k (firstn m l) d = nth k l d.
Proof.
  revert k m; induction l as [|x l IH]; intros k m H.
  - rewrite firstn_nil. reflexivity.
  - destruct m; [lia|]. destruct k; [reflexivity|]. cbn. apply IH. lia.
Qed.

Lemma nth_skipn_add {A} (l : list A) k m d : nth k (skipn m l) d = nth (m + k) l d.
Proof.
  revert l; induction m as [|m IH]; intros l; [reflexivity|].
  destruct l as [|x l]; [destruct k; reflexivity|]. cbn. apply IH.
Qed.

Lemma skipn_skipn' {A} (x y : nat) (l : list A) : skipn x (skipn y l) = skipn (x + y) l.
Proof.
  revert l; induction y as [|y IH]; intros l.
  - rewrite Nat.add_0_r. reflexivity.
  - destruct l as [|a l]; [rewrite !skipn_nil; reflexivity|].
    rewrite Nat.add_succ_r. cbn [skipn]. apply IH.
Qed.

Lemma nth_error_firstn_lt {A} (l : list A) k m : k < m -> nth_error (firstn m l) k = nth_error l k.
Proof.
  revert k m; induction l as [|x l IH]; intros k m H.
  - rewrite firstn_nil. reflexivity.
  - destruct m; [lia|]. destruct k; [reflexivity|]. cbn. apply IH. lia.
Qed.

Lemma firstn_add_app {A} (l : list A) a b : firstn (a + b) l = firstn a l ++ firstn b (skipn a l).
Proof.
  revert l; induction a as [|a IH]; intros l; [reflexivity|].
  destruct l as [|x l]; [cbn; rewrite firstn_nil; reflexivity|]. cbn. f_equal. apply IH.
Qed.

Lemma in_firstn {A} (l : list A) n x : In x (firstn n l) -> In x l.
Proof.
  revert n; induction l as [|y l IH]; intros n H; [rewrite firstn_nil in H; exact H|].
  destruct n; [destruct H|]. cbn in H. destruct H as [->|H]; [left; reflexivity | right; eapply IH, H].
Qed.

Lemma in_skipn {A} (l : list A) n x : In x (skipn n l) -> In x l.
Proof.
  revert l; induction n as [|n IH]; intros l H; [exact H|].
  destruct l as [|y l]; [exact H|]. right. apply IH, H.
Qed.
