(** Model of the bounds mini-language parser:
    Side::from_str, UserBounds::from_str, parse_bounds_list, UserBoundsList::from_str.
    The model works on the UTF-8 bytes of the argument; every structural character is
    ASCII, so scanning bytes equals scanning [char_indices] on valid UTF-8. *)
From TucModel Require Import Base.Bytes Model.Bounds.

Definition is_digit (b : byte) : bool := (48 <=? b)%N && (b <=? 57)%N.

Fixpoint digits_val (acc : Z) (l : bytes) : option Z :=
  match l with
  | [] => Some acc
  | x :: l' => if is_digit x then digits_val (acc * 10 + Z.of_N (x - 48)) l' else None
  end.

Definition i32_min : Z := (-2147483648)%Z.
Definition i32_max : Z := 2147483647%Z.

(** i32::from_str : optional single sign, at least one ASCII digit, value in range *)
Definition parse_i32 (s : bytes) : option Z :=
  let '(neg, ds) :=
    match s with
    | x :: r => if N.eqb x ch_minus then (true, r)
                else if N.eqb x ch_plus then (false, r) else (false, s)
    | [] => (false, s)
    end in
  match ds with
  | [] => None
  | _ =>
      match digits_val 0 ds with
      | None => None
      | Some v =>
          let v' := if neg then (- v)%Z else v in
          if (i32_min <=? v')%Z && (v' <=? i32_max)%Z then Some v' else None
      end
  end.

(** Side::from_str *)
Definition parse_side (s : bytes) : option side :=
  match s with
  | [] => Some SCont
  | _ => match parse_i32 s with Some v => Some (SSome v) | None => None end
  end.

(** split at the first occurrence of byte [c] : (before, Some after) or (all, None) *)
Fixpoint split_once (c : byte) (s : bytes) : bytes * option bytes :=
  match s with
  | [] => ([], None)
  | x :: s' =>
      if N.eqb x c then ([], Some s')
      else let '(a, b) := split_once c s' in (x :: a, b)
  end.

(** str::split(c) *)
Fixpoint split_on (c : byte) (s : bytes) : list bytes :=
  match s with
  | [] => [[]]
  | x :: s' =>
      if N.eqb x c then [] :: split_on c s'
      else match split_on c s' with
           | p :: ps => (x :: p) :: ps
           | [] => [[x]]
           end
  end.

Definition side_is_zero (s : side) : bool :=
  match s with SSome v => Z.eqb v 0 | SCont => false end.

(** UserBounds::from_str *)
Definition parse_bound (s0 : bytes) : option ubound :=
  let '(s, fb) := split_once ch_eq s0 in
  match s with
  | [] => None                                  (* empty field *)
  | _ =>
    if bytes_eqb s [ch_colon] then None         (* no numbers next to ':' *)
    else
      let '(a, rest) := split_once ch_colon s in
      let sides :=
        match rest with
        | None => match parse_side a with Some x => Some (x, x) | None => None end
        | Some b =>
            match a, b with
            | [], _ => match parse_side b with Some r => Some (SCont, r) | None => None end
            | _, [] => match parse_side a with Some l => Some (l, SCont) | None => None end
            | _, _ => match parse_side a, parse_side b with
                      | Some l, Some r => Some (l, r)
                      | _, _ => None
                      end
            end
        end in
      match sides with
      | None => None
      | Some (l, r) =>
          if side_is_zero l || side_is_zero r then None
          else
            match l, r with
            | SSome lv, SSome rv =>
                if (rv <? lv)%Z && same_sign rv lv then None
                else Some (mkB l r false fb)
            | _, _ => Some (mkB l r false fb)
            end
      end
  end.

Fixpoint parse_bounds_csv (ps : list bytes) : option (list bof) :=
  match ps with
  | [] => Some []
  | p :: ps' =>
      match parse_bound p with
      | None => None
      | Some b => match parse_bounds_csv ps' with
                  | None => None
                  | Some r => Some (Bound b :: r)
                  end
      end
  end.

(** str::replace for a two-byte pattern (leftmost, non-overlapping) *)
Fixpoint replace2 (a b : byte) (rep : bytes) (s : bytes) : bytes :=
  match s with
  | [] => []
  | x :: s' =>
      match s' with
      | y :: t => if N.eqb x a && N.eqb y b then rep ++ replace2 a b rep t
                  else x :: replace2 a b rep s'
      | [] => [x]
      end
  end.

(** the four sequential replaces applied to text outside braces *)
Definition render_filler (s : bytes) : bytes :=
  replace2 ch_backslash ch_t [TAB]
    (replace2 ch_backslash ch_n [LF]
       (replace2 ch_rbrace ch_rbrace [ch_rbrace]
          (replace2 ch_lbrace ch_lbrace [ch_lbrace] s))).

Definition is_brace (b : byte) : bool := N.eqb b ch_lbrace || N.eqb b ch_rbrace.

Definition push_filler (cur : bytes) (acc : list bof) : list bof :=
  match cur with
  | [] => acc
  | _ => acc ++ [Filler (render_filler cur)]
  end.

Fixpoint run_len (c : byte) (s : bytes) : nat :=
  match s with
  | x :: s' => if N.eqb x c then S (run_len c s') else O
  | [] => O
  end.

(** The format-string scanner.  [cur] is the text since [part_start]; [acc] the items
    pushed so far.  One character of look-ahead: [w1] is the next byte, or 'x'. *)
Fixpoint scan_format (s : bytes) (inside : bool) (cur : bytes) (acc : list bof)
  : option (list bof) :=
  match s with
  | [] =>
      if inside then None else Some (push_filler cur acc)
  | w0 :: s' =>
      (* inside a bound an odd run of '}' is the closing brace followed by escaped ones *)
      let closes_bound := inside && N.eqb w0 ch_rbrace && Nat.odd (run_len ch_rbrace s) in
      let escaped :=
        match s' with
        | w1 :: _ => N.eqb w0 w1 && is_brace w0 && negb closes_bound
        | [] => false
        end in
      if escaped then
        match s' with
        | w1 :: s'' => scan_format s'' inside (cur ++ [w0; w1]) acc
        | [] => None (* unreachable *)
        end
      else if N.eqb w0 ch_rbrace && negb inside then None
      else if N.eqb w0 ch_lbrace then
        if inside then None
        else scan_format s' true [] (push_filler cur acc)
      else if N.eqb w0 ch_rbrace then
        match parse_bounds_csv (split_on ch_comma cur) with
        | None => None
        | Some bs => scan_format s' false [] (acc ++ bs)
        end
      else scan_format s' inside (cur ++ [w0]) acc
  end.

(** parse_bounds_list *)
Definition parse_bounds_list (s : bytes) : option (list bof) :=
  match s with
  | [] => Some []
  | _ =>
      if existsb is_brace s then scan_format s false [] []
      else parse_bounds_csv (split_on ch_comma s)
  end.

(** UserBoundsList::from_str.  A list without any bound is rejected. *)
Definition parse_ublist (s : bytes) : option ublist :=
  match s with
  | [] => None
  | _ =>
      match parse_bounds_list s with
      | None => None
      | Some l => from_vec l
      end
  end.
