(** UTF-8 as std::str::from_utf8 accepts it (no overlong forms, no surrogates,
    nothing above U+10FFFF). *)
From TucModel Require Import Base.Bytes.
Local Open Scope N_scope.

Definition in_rng (lo hi b : N) : bool := (lo <=? b) && (b <=? hi).
Definition is_cont (b : N) : bool := in_rng 128 191 b.

(** length of the well-formed scalar encoding at the head of [l], if any *)
Definition utf8_head_len (l : bytes) : option nat :=
  match l with
  | [] => None
  | b0 :: r =>
      if b0 <? 128 then Some 1%nat
      else if in_rng 194 223 b0 then
        match r with b1 :: _ => if is_cont b1 then Some 2%nat else None | _ => None end
      else if in_rng 224 239 b0 then
        match r with
        | b1 :: b2 :: _ =>
            let ok1 := if b0 =? 224 then in_rng 160 191 b1
                       else if b0 =? 237 then in_rng 128 159 b1
                       else is_cont b1 in
            if ok1 && is_cont b2 then Some 3%nat else None
        | _ => None
        end
      else if in_rng 240 244 b0 then
        match r with
        | b1 :: b2 :: b3 :: _ =>
            let ok1 := if b0 =? 240 then in_rng 144 191 b1
                       else if b0 =? 244 then in_rng 128 143 b1
                       else is_cont b1 in
            if ok1 && is_cont b2 && is_cont b3 then Some 4%nat else None
        | _ => None
        end
      else None
  end.

(** split into scalar encodings; [None] if the text is not valid UTF-8 *)
Fixpoint utf8_chars_fuel (fuel : nat) (l : bytes) : option (list bytes) :=
  match l with
  | [] => Some []
  | _ =>
      match fuel with
      | O => None
      | S f =>
          match utf8_head_len l with
          | None => None
          | Some k =>
              match utf8_chars_fuel f (skipn k l) with
              | None => None
              | Some cs => Some (firstn k l :: cs)
              end
          end
      end
  end.

Definition utf8_chars (l : bytes) : option (list bytes) := utf8_chars_fuel (length l) l.

Definition utf8_valid (l : bytes) : bool :=
  match utf8_chars l with Some _ => true | None => false end.

(** offsets of the scalar boundaries of a valid text: 0, |c1|, |c1|+|c2|, ..., |l| *)
Fixpoint boundaries_from (pos : nat) (cs : list bytes) : list nat :=
  match cs with
  | [] => [pos]
  | c :: cs' => pos :: boundaries_from (pos + length c) cs'
  end.
