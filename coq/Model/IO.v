(** A small model of the I/O envelope of main(): one buffered stdout that is flushed
    explicitly (with the error propagated) on every branch, a reader that may start failing
    after k bytes, a writer that accepts k bytes in total and then fails persistently. *)
From TucModel Require Import Base.Bytes Model.Bounds Model.Opt Model.CutStr Model.Main.

(** writer fault: [None] never fails, [Some k] accepts k bytes in total *)
Definition accepted (out : bytes) (wk : option nat) : bytes :=
  match wk with None => out | Some k => firstn k out end.

Definition fits (out : bytes) (wk : option nat) : bool :=
  match wk with None => true | Some k => Nat.leb (length out) k end.

(** exit status and delivered bytes of a run whose cutting result is [r] (the output the
    mode produces on what it managed to read), [read_ok] = the reader never failed.
    Bytes reach fd 1 in order; an error is seen at a buffer spill (the run stops) or at the
    final flush()?; either way what was delivered is the accepted prefix. *)
Definition envelope (r : outcome) (read_ok : bool) (wk : option nat) : nat * bytes :=
  match r with
  | Done out => ((if read_ok && fits out wk then 0 else 1), accepted out wk)
  | Fail pre => (1, accepted pre wk)
  | Panic => (101, [])
  | Hang => (124, [])
  end.

(** the complete records of what a record-oriented mode could read before the reader failed *)
Fixpoint upto_last_eol (eol : byte) (l : bytes) (cur acc : bytes) : bytes :=
  match l with
  | [] => acc
  | x :: l' => if N.eqb x eol then upto_last_eol eol l' [] (acc ++ rev cur ++ [x])
               else upto_last_eol eol l' (x :: cur) acc
  end.

Definition complete_records (eol : byte) (l : bytes) : bytes := upto_last_eol eol l [] [].
