(** Model of src/fast_lane.rs : the single-byte-delimiter path *)
From TucModel Require Import Base.Bytes Model.Bounds Model.Scan Model.Opt Model.CutBytes Model.CutStr.

(** FastOpt::try_from *)
Definition fast_eligible (o : opt) : bool :=
  Nat.eqb (length (o_delim o)) 1
  && negb (o_complement o) && negb (o_greedy o) && negb (o_compress o) && negb (o_json o)
  && btype_eqb (o_btype o) BFields
  && match o_replace o with None => true | Some _ => false end
  && match o_regex o with None => true | Some _ => false end.

(** memchr_iter: the positions of byte [d] *)
Fixpoint positions_from (d : byte) (pos : nat) (l : bytes) : list nat :=
  match l with
  | [] => []
  | x :: l' => if N.eqb x d then pos :: positions_from d (S pos) l'
               else positions_from d (S pos) l'
  end.

(** the scan loop: push i+1 for every delimiter until [curr_field] reaches the
    last interesting field.  Returns (field starts after the first, curr_field). *)
Fixpoint scan_starts (lif : side) (curr : Z) (ps : list nat) : list nat * Z :=
  match ps with
  | [] => ([], curr)
  | i :: ps' =>
      let curr' := (curr + 1)%Z in
      if side_eqb (SSome curr') lif then ([S i], curr')
      else let '(r, c) := scan_starts lif curr' ps' in (S i :: r, c)
  end.

Fixpoint fast_out (o : opt) (d : byte) (line : bytes) (fields : list nat) (bs : list bof) : rres :=
  match bs with
  | [] => ROk []
  | Filler f :: bs' =>
      match fast_out o d line fields bs' with
      | ROk r => ROk (f ++ r)
      | e => e
      end
  | Bound b :: bs' =>
      let piece : rres :=
        match try_into_range b (length fields - 1) with
        | Some (s, e) =>
            match nth_error fields s, nth_error fields e with
            | Some a, Some z =>
                if Nat.leb 1 z && Nat.leb a (z - 1) && Nat.leb (z - 1) (length line)
                then ROk (slice line a (z - 1))
                else RPanic
            | _, _ => RPanic
            end
        | None =>
            match fallback_for b (o_fallback o) with
            | Some f => ROk f
            | None => RErr
            end
        end in
      match piece with
      | ROk p =>
          let sep := if o_join o && negb (blast b) then [d] else [] in
          match fast_out o d line fields bs' with
          | ROk r => ROk (p ++ sep ++ r)
          | e => e
          end
      | e => e
      end
  end.

Definition cut_fast (o : opt) (line0 : bytes) : rres :=
  match o_delim o with
  | [d] =>
      let buffer := match o_trim o with
                    | Some k => trim_lit k [d] line0
                    | None => line0
                    end in
      match buffer with
      | [] => ROk (if o_only_delimited o then [] else [o_eol o])
      | _ =>
          let lif := lif (o_bounds o) in
          let '(starts, curr) := scan_starts lif 0 (positions_from d 0 buffer) in
          if Z.eqb curr 0 && o_only_delimited o then ROk []
          else
            let fields := 0 :: starts ++
                          (if side_eqb (SSome curr) lif then [] else [S (length buffer)]) in
            match fast_out o d buffer fields (items (o_bounds o)) with
            | ROk body => ROk (body ++ [o_eol o])
            | e => e
            end
      end
  | _ => RPanic
  end.

Definition read_and_cut_fast (o : opt) (input : bytes) : option outcome :=
  run_records (fun r => Some (cut_fast o r)) (records (o_eol o) input) [].
