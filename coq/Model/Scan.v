(** Offset-level scanning primitives shared by the general path:
    bstr's find_iter (leftmost, non-overlapping, an empty needle matching at every
    position), the fields-locations builders, trim and compress_delimiter. *)
From TucModel Require Import Base.Bytes.

(** positions at which [d] is found, scanning [l] from offset [pos];
    [skip] > 0 while we are inside an occurrence already reported. *)
Fixpoint find_iter_aux (d : bytes) (skip pos : nat) (l : bytes) : list nat :=
  match l with
  | [] => match skip, d with O, [] => [pos] | _, _ => [] end
  | _ :: l' =>
      match skip with
      | S k => find_iter_aux d k (S pos) l'
      | O => if starts_with d l
             then pos :: find_iter_aux d (length d - 1) (S pos) l'
             else find_iter_aux d 0 (S pos) l'
      end
  end.

Definition find_iter (d l : bytes) : list nat := find_iter_aux d 0 0 l.

(** a match is a half-open offset interval *)
Definition mtch := (nat * nat)%type.

Definition lit_matches (d l : bytes) : list mtch :=
  map (fun p => (p, p + length d)) (find_iter d l).

(** merge matches that touch (the greedy literal splitter: after an occurrence,
    skip every occurrence that starts exactly where the previous one ended) *)
Fixpoint merge_adjacent_from (cur : mtch) (ms : list mtch) : list mtch :=
  match ms with
  | [] => [cur]
  | m :: ms' =>
      if Nat.eqb (fst m) (snd cur) then merge_adjacent_from (fst cur, snd m) ms'
      else cur :: merge_adjacent_from m ms'
  end.

Definition merge_adjacent (ms : list mtch) : list mtch :=
  match ms with
  | [] => []
  | m :: ms' => merge_adjacent_from m ms'
  end.

(** fill_with_fields_locations{,_greedy,_using_regex}: the gaps between matches *)
Fixpoint gaps_from (start : nat) (ms : list mtch) (len : nat) : list mtch :=
  match ms with
  | [] => [(start, len)]
  | m :: ms' => (start, fst m) :: gaps_from (snd m) ms' len
  end.

Definition fields_of_matches (ms : list mtch) (line : bytes) : list mtch :=
  match line with
  | [] => []
  | _ => gaps_from 0 ms (length line)
  end.

(** trim (literal delimiter).  An empty delimiter trims nothing. *)
Fixpoint trim_left_fuel (fuel : nat) (d l : bytes) : bytes :=
  match fuel with
  | O => l
  | S f => match strip_prefix d l with
           | Some r => trim_left_fuel f d r
           | None => l
           end
  end.

Definition trim_left (d l : bytes) : bytes :=
  match d with
  | [] => l
  | _ => trim_left_fuel (length l) d l
  end.

Definition trim_right (d l : bytes) : bytes := rev (trim_left (rev d) (rev l)).

Inductive trimk := TLeft | TRight | TBoth.

Definition trim_lit (k : trimk) (d l : bytes) : bytes :=
  match k with
  | TLeft => trim_left d l
  | TRight => trim_right d l
  | TBoth => trim_right d (trim_left d l)
  end.

(** trim_regex: the first match if it starts the line, the last one if it ends it
    (never the same match twice) *)
Definition trim_matches (k : trimk) (ms : list mtch) (line : bytes) : bytes :=
  let len := length line in
  let do_l := match k with TRight => false | _ => true end in
  let do_r := match k with TLeft => false | _ => true end in
  let '(idx_start, rest) :=
    match ms with
    | m :: ms' =>
        if do_l then
          if Nat.eqb (fst m) 0 then (snd m, ms') else (0, ms)
        else (0, ms)
    | [] => (0, ms)
    end in
  let idx_end :=
    if do_r then
      match rev rest with
      | m :: _ => if Nat.eqb (snd m) len then fst m else len
      | [] => len
      end
    else len in
  slice line idx_start idx_end.

(** compress_delimiter, driven by the find_iter positions *)
Fixpoint compress_from (d line : bytes) (prev : nat) (ps : list nat) : bytes :=
  match ps with
  | [] => if Nat.ltb prev (length line) then skipn prev line else []
  | idx :: ps' =>
      let prev_part := slice line prev idx in
      (if Nat.eqb idx 0 then d
       else match prev_part with [] => [] | _ => prev_part ++ d end)
      ++ compress_from d line (idx + length d) ps'
  end.

Definition compress_delimiter (d line : bytes) : bytes :=
  compress_from d line 0 (find_iter d line).

(** replace every match by [rep] (bstr replace / Regex::replace_all with NoExpand) *)
Fixpoint replace_matches_from (line : bytes) (prev : nat) (ms : list mtch) (rep : bytes) : bytes :=
  match ms with
  | [] => skipn prev line
  | m :: ms' => slice line prev (fst m) ++ rep ++ replace_matches_from line (snd m) ms' rep
  end.

Definition replace_matches (line : bytes) (ms : list mtch) (rep : bytes) : bytes :=
  replace_matches_from line 0 ms rep.
