(** serde_json::to_string(&str) : the escape table of serde_json's ESCAPE array. *)
From TucModel Require Import Base.Bytes.
Local Open Scope N_scope.

Definition hex_digit (n : N) : byte := if n <? 10 then 48 + n else 87 + n. (* lower case *)

Definition json_escape_byte (b : byte) : bytes :=
  if b =? 34 then [92; 34]
  else if b =? 92 then [92; 92]
  else if b =? 8 then [92; 98]
  else if b =? 9 then [92; 116]
  else if b =? 10 then [92; 110]
  else if b =? 12 then [92; 102]
  else if b =? 13 then [92; 114]
  else if b <? 32 then [92; 117; 48; 48; hex_digit (b / 16); hex_digit (b mod 16)]
  else [b].

Definition json_string (s : bytes) : bytes :=
  [ch_quote] ++ flat_map json_escape_byte s ++ [ch_quote].
