(** Model of src/bounds/{side,userbounds,userboundslist}.rs (everything but the parser).
    Indexes are [Z] (the code uses i32; the parser model only produces values in the
    i32 range and the theorems that need it carry [n < 2^31] explicitly). *)
From TucModel Require Import Base.Bytes.
Local Open Scope Z_scope.

Inductive side := SSome (v : Z) | SCont.

Record ubound := mkB {
  bl : side;
  br : side;
  blast : bool;              (* is_last *)
  bfb : option bytes         (* fallback_oob *)
}.

Inductive bof := Bound (b : ubound) | Filler (f : bytes).

Record ublist := mkL {
  items : list bof;
  lif : side                 (* last_interesting_field *)
}.

Definition side_eqb (a b : side) : bool :=
  match a, b with
  | SSome x, SSome y => Z.eqb x y
  | SCont, SCont => true
  | _, _ => false
  end.

(** the sign tests of side.rs / userbounds.rs, as comparisons of signs
    (the code compares signs; the product of two i32 is never formed) *)
Definition same_sign (s o : Z) : bool :=
  ((0 <? s) && (0 <? o)) || ((s <? 0) && (o <? 0)).
Definition opposite_sign (s o : Z) : bool :=
  ((0 <? s) && (o <? 0)) || ((s <? 0) && (0 <? o)).

(** Side::partial_cmp, as the two derived operators the code uses *)
Definition side_gt (a b : side) : bool :=
  match a, b with
  | SSome s, SSome o => same_sign s o && (o <? s)
  | SCont, SSome _ => true
  | SSome _, SCont => false
  | SCont, SCont => false
  end.

Definition side_le (a b : side) : bool :=
  match a, b with
  | SSome s, SSome o => same_sign s o && (s <=? o)
  | SCont, SSome _ => false
  | SSome _, SCont => true
  | SCont, SCont => true
  end.

(** UserBounds::try_into_range : 1-based inclusive, possibly negative/open
    -> 0-based half-open.  [None] = any of its three errors. *)
Definition resolve_left (s : side) (n : Z) : option Z :=
  match s with
  | SCont => Some 0
  | SSome v =>
      if (n <? v) || (v <? - n) then None
      else Some (if v <? 0 then n + v else v - 1)
  end%Z.

Definition resolve_right (s : side) (n : Z) : option Z :=
  match s with
  | SCont => Some n
  | SSome v =>
      if (n <? v) || (v <? - n) then None
      else Some (if v <? 0 then n + v + 1 else v)
  end%Z.

Definition try_into_range (b : ubound) (n : nat) : option (nat * nat) :=
  match resolve_left (bl b) (Z.of_nat n) with
  | None => None
  | Some s =>
      match resolve_right (br b) (Z.of_nat n) with
      | None => None
      | Some e =>
          if (e <=? s)%Z then None else Some (Z.to_nat s, Z.to_nat e)
      end
  end.

(** UserBounds::matches ; [None] = sign mismatch error *)
Definition matches (b : ubound) (idx : Z) : option bool :=
  match bl b, br b with
  | SSome l, _ => if opposite_sign l idx then None else
      match br b with
      | SSome r => if opposite_sign r idx then None else Some ((l <=? idx) && (idx <=? r))%Z
      | SCont => Some (l <=? idx)%Z
      end
  | SCont, SSome r => if opposite_sign r idx then None else Some (idx <=? r)%Z
  | SCont, SCont => Some true
  end.

Definition single (i : Z) : ubound := mkB (SSome i) (SSome i) false None.

Fixpoint singles_from (start : nat) (count : nat) : list ubound :=
  match count with
  | O => []
  | S c => single (Z.of_nat start + 1) :: singles_from (S start) c
  end.

(** UserBounds::unpack : a resolvable bound becomes one single-part bound per
    selected part; an unresolvable one is kept intact (with its fallback). *)
Definition unpack_bound (b : ubound) (n : nat) : list ubound :=
  match try_into_range b n with
  | Some (s, e) => singles_from s (e - s)%nat
  | None => [b]
  end.

(** From<Range<usize>> for UserBounds *)
Definition of_range (s e : nat) : ubound :=
  mkB (SSome (Z.of_nat s + 1)) (SSome (Z.of_nat e)) false None.

(** complement_std_range *)
Definition complement_std_range (n : nat) (s e : nat) : list (nat * nat) :=
  match s with
  | O => if Nat.eqb e n then [] else [(e, n)]
  | _ => if Nat.eqb e n then [(0%nat, s)] else [(0%nat, s); (e, n)]
  end.

(** UserBounds::complement ; [None] = the bound does not resolve *)
Definition complement_bound (b : ubound) (n : nat) : option (list ubound) :=
  match try_into_range b n with
  | None => None
  | Some (s, e) => Some (map (fun r => of_range (fst r) (snd r)) (complement_std_range n s e))
  end.

Definition bounds_only (l : list bof) : list ubound :=
  flat_map (fun x => match x with Bound b => [b] | Filler _ => [] end) l.

Definition side_pos (s : side) : bool := match s with SSome v => (0 <? v)%Z | SCont => false end.
Definition side_nonpos (s : side) : bool := match s with SSome v => negb (0 <? v)%Z | SCont => false end.
Definition side_neg (s : side) : bool := match s with SSome v => (v <? 0)%Z | SCont => false end.

Definition is_sortable (l : list bof) : bool :=
  let bs := bounds_only l in
  let has_pos := existsb (fun b => side_pos (bl b) || side_pos (br b)) bs in
  let has_neg := existsb (fun b => side_nonpos (bl b) || side_nonpos (br b)) bs in
  negb (has_neg && has_pos).

(** UserBounds::partial_cmp used as [prev <= b] in is_sorted:
    prev.r against b.l, an open left side standing for index 1. *)
Definition bound_le (a b : ubound) : bool :=
  side_le (br a) (match bl b with SCont => SSome 1 | s => s end).

Fixpoint is_sorted_from (prev : ubound) (bs : list ubound) : bool :=
  match bs with
  | [] => true
  | b :: bs' => if bound_le prev b then is_sorted_from b bs' else false
  end.

Definition is_sorted (l : list bof) : bool :=
  match bounds_only l with
  | [] => true
  | b :: bs => is_sorted_from b bs
  end.

Definition has_negative_indices (l : list bof) : bool :=
  existsb (fun b => side_neg (bl b) || side_neg (br b)) (bounds_only l).

Definition is_forward_only (l : list bof) : bool :=
  is_sortable l && is_sorted l && negb (has_negative_indices l).

(** From<Vec<BoundOrFiller>> for UserBoundsList.
    [None] = the expect() on "at least one bound" would fire. *)
Fixpoint rightmost (acc : option side) (bs : list ubound) : option side :=
  match bs with
  | [] => acc
  | b :: bs' =>
      rightmost (match acc with
                 | None => Some (br b)
                 | Some r => if side_gt (br b) r then Some (br b) else Some r
                 end) bs'
  end.

Definition set_last (b : ubound) : ubound := mkB (bl b) (br b) true (bfb b).

(* mark the last Bound of the list as is_last (others keep their flag) *)
Fixpoint mark_last (l : list bof) : list bof :=
  match l with
  | [] => []
  | Bound b :: l' =>
      match bounds_only l' with
      | [] => Bound (set_last b) :: l'
      | _ => Bound b :: mark_last l'
      end
  | Filler f :: l' => Filler f :: mark_last l'
  end.

Definition from_vec (l : list bof) : option ublist :=
  match bounds_only l with
  | [] => None
  | bs =>
      let rm := if is_sortable l then rightmost None bs else None in
      Some (mkL (mark_last l) (match rm with Some s => s | None => SCont end))
  end.

(** UserBoundsList::unpack *)
Definition unpack_list (l : list bof) (n : nat) : option ublist :=
  from_vec (flat_map (fun x => match x with
                               | Bound b => map Bound (unpack_bound b n)
                               | Filler f => [Filler f]
                               end) l).

(** UserBoundsList::complement.
    An unresolvable bound is kept as it is: the output loop then prints its fallback in
    its place or fails the record, as without --complement (C13). *)
Definition complement_items (l : list bof) (n : nat) : list bof :=
  flat_map (fun x => match x with
                     | Bound b => match complement_bound b n with
                                  | Some bs => map Bound bs
                                  | None => [Bound b]
                                  end
                     | Filler f => [Filler f]
                     end) l.

Definition complement_list (l : list bof) (n : nat) : option ublist :=
  let c := complement_items l n in
  match bounds_only c with
  | [] => None
  | _ => from_vec c
  end.

Definition is_filler (x : bof) : bool := match x with Filler _ => true | _ => false end.
