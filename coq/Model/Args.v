(** Model of pico-args 0.5 (features short-space-opt, combined-flags, eq-separator) as
    src/bin/tuc.rs uses it, and of parse_args itself.  argv (without argv[0]) is a list
    of UTF-8 byte strings. *)
From TucModel Require Import Base.Bytes Model.Bounds Model.BoundsParse Model.Scan
     Model.Regex Model.Opt.

Definition args := list bytes.

Fixpoint index_eq (key : bytes) (l : args) (i : nat) : option nat :=
  match l with
  | [] => None
  | x :: l' => if bytes_eqb x key then Some i else index_eq key l' (S i)
  end.

Fixpoint remove_nth {A} (n : nat) (l : list A) : list A :=
  match n, l with
  | _, [] => []
  | O, _ :: l' => l'
  | S k, x :: l' => x :: remove_nth k l'
  end.

Fixpoint replace_nth {A} (n : nat) (v : A) (l : list A) : list A :=
  match n, l with
  | _, [] => []
  | O, _ :: l' => v :: l'
  | S k, x :: l' => x :: replace_nth k v l'
  end.

(** index_of : first key exactly present (short first, then long) *)
Definition index_of (short long : bytes) (l : args) : option (nat * bytes) :=
  match short with
  | [] => None
  | _ => match index_eq short l 0 with
         | Some i => Some (i, short)
         | None =>
             match long with
             | [] => None
             | _ => match index_eq long l 0 with
                    | Some i => Some (i, long)
                    | None => None
                    end
             end
         end
  end.

Definition is_long (k : bytes) : bool := starts_with [ch_minus; ch_minus] k.

(** remove the first occurrence of byte [c] *)
Fixpoint remove_first (c : byte) (s : bytes) : bytes :=
  match s with
  | [] => []
  | x :: s' => if N.eqb x c then s' else x :: remove_first c s'
  end.

Fixpoint find_combined (c : byte) (l : args) (i : nat) : option nat :=
  match l with
  | [] => None
  | x :: l' =>
      if starts_with [ch_minus] x && negb (is_long x) && existsb (N.eqb c) x
      then Some i else find_combined c l' (S i)
  end.

(** Arguments::contains *)
Definition contains (short long : bytes) (l : args) : bool * args :=
  match index_of short long l with
  | Some (i, _) => (true, remove_nth i l)
  | None =>
      match short with
      | [_; c] =>
          match find_combined c l 0 with
          | Some n =>
              match nth_error l n with
              | Some s =>
                  if Nat.eqb (length s) 2 then (true, remove_nth n l)
                  else (true, replace_nth n (remove_first c s) l)
              | None => (false, l)
              end
          | None => (false, l)
          end
      | _ => (false, l)
      end
  end.

Definition starts_with_plus_eq (text prefix : bytes) : bool :=
  match strip_prefix prefix text with
  | Some (x :: _) => N.eqb x ch_eq
  | _ => false
  end.

Definition starts_with_short_prefix (text prefix : bytes) : bool :=
  if is_long prefix then false else starts_with prefix text.

Definition index_predicate (text prefix : bytes) : bool :=
  starts_with_plus_eq text prefix || starts_with_short_prefix text prefix.

Fixpoint index_pred (prefix : bytes) (l : args) (i : nat) : option nat :=
  match l with
  | [] => None
  | x :: l' => if index_predicate x prefix then Some i else index_pred prefix l' (S i)
  end.

Definition index_of2 (short long : bytes) (l : args) : option (nat * bytes) :=
  match (match short with [] => None | _ => index_pred short l 0 end) with
  | Some i => Some (i, short)
  | None =>
      match long with
      | [] => None
      | _ => match index_pred long l 0 with
             | Some i => Some (i, long)
             | None => None
             end
      end
  end.

Inductive found :=
| FNone
| FErrNoValue                          (* Error::OptionWithoutAValue *)
| FVal (v : bytes) (two : bool) (idx : nat).

Definition last_byte (s : bytes) : option byte :=
  match rev s with x :: _ => Some x | [] => None end.

(** Arguments::find_value *)
Definition find_value (short long : bytes) (l : args) : found :=
  match index_of short long l with
  | Some (i, _) =>
      match nth_error l (S i) with
      | Some v => FVal v true i
      | None => FErrNoValue
      end
  | None =>
      match index_of2 short long l with
      | Some (i, key) =>
          match nth_error l i with
          | None => FNone
          | Some item =>
              let v0 := skipn (length key) item in
              let v1 := match v0 with
                        | x :: r => if N.eqb x ch_eq then r else v0
                        | [] => v0
                        end in
              match v1 with
              | c :: r =>
                  if N.eqb c 34 || N.eqb c 39 then
                    match last_byte r with
                    | Some z => if N.eqb z c then
                                  match removelast r with
                                  | [] => FErrNoValue
                                  | v => FVal v false i
                                  end
                                else FErrNoValue
                    | None => FErrNoValue
                    end
                  else FVal v1 false i
              | [] => FErrNoValue
              end
          end
      | None => FNone
      end
  end.

Inductive vres (A : Type) :=
| VAbsent (l : args)
| VPresent (a : A) (l : args)
| VNoValue                             (* OptionWithoutAValue *)
| VBad.                                (* the value does not parse *)
Arguments VAbsent {A}. Arguments VPresent {A}. Arguments VNoValue {A}. Arguments VBad {A}.

(** Arguments::opt_value_from_fn *)
Definition opt_value {A} (short long : bytes) (f : bytes -> option A) (l : args) : vres A :=
  match find_value short long l with
  | FNone => VAbsent l
  | FErrNoValue => VNoValue
  | FVal v two i =>
      match f v with
      | Some a => VPresent a (if two then remove_nth i (remove_nth i l) else remove_nth i l)
      | None => VBad
      end
  end.

(** ------------------------------------------------------------------ *)

Definition B (s : list N) : bytes := s.
(* option keys *)
Definition k_h := [45;104]%N.        Definition k_help := [45;45;104;101;108;112]%N.
Definition k_f := [45;102]%N.        Definition k_fields := [45;45;102;105;101;108;100;115]%N.
Definition k_c := [45;99]%N.         Definition k_characters := [45;45;99;104;97;114;97;99;116;101;114;115]%N.
Definition k_b := [45;98]%N.         Definition k_bytes := [45;45;98;121;116;101;115]%N.
Definition k_l := [45;108]%N.        Definition k_lines := [45;45;108;105;110;101;115]%N.
Definition k_d := [45;100]%N.        Definition k_delimiter := [45;45;100;101;108;105;109;105;116;101;114]%N.
Definition k_g := [45;103]%N.        Definition k_greedy := [45;45;103;114;101;101;100;121;45;100;101;108;105;109;105;116;101;114]%N.
Definition k_r := [45;114]%N.        Definition k_replace := [45;45;114;101;112;108;97;99;101;45;100;101;108;105;109;105;116;101;114]%N.
Definition k_M := [45;77]%N.         Definition k_fixed := [45;45;102;105;120;101;100;45;109;101;109;111;114;121]%N.
Definition k_json := [45;45;106;115;111;110]%N.
Definition k_j := [45;106]%N.        Definition k_join := [45;45;106;111;105;110]%N.
Definition k_nojoin := [45;45;110;111;45;106;111;105;110]%N.
Definition k_e := [45;101]%N.        Definition k_regex := [45;45;114;101;103;101;120]%N.
Definition k_m := [45;109]%N.        Definition k_complement := [45;45;99;111;109;112;108;101;109;101;110;116]%N.
Definition k_s := [45;115]%N.        Definition k_only := [45;45;111;110;108;121;45;100;101;108;105;109;105;116;101;100]%N.
Definition k_p := [45;112]%N.        Definition k_compress := [45;45;99;111;109;112;114;101;115;115;45;100;101;108;105;109;105;116;101;114]%N.
Definition k_V := [45;86]%N.         Definition k_version := [45;45;118;101;114;115;105;111;110]%N.
Definition k_z := [45;122]%N.        Definition k_zero := [45;45;122;101;114;111;45;116;101;114;109;105;110;97;116;101;100]%N.
Definition k_t := [45;116]%N.        Definition k_trim := [45;45;116;114;105;109]%N.
Definition k_fb := [45;45;102;97;108;108;98;97;99;107;45;111;111;98]%N.
Definition k_fbeq := k_fb ++ [ch_eq].

Definition parse_trim (s : bytes) : option trimk :=
  match s with
  | [c] => if N.eqb c 108 || N.eqb c 76 then Some TLeft
           else if N.eqb c 114 || N.eqb c 82 then Some TRight
           else if N.eqb c 98 || N.eqb c 66 then Some TBoth
           else None
  | _ => None
  end.

(** usize::from_str, value < 2^64 *)
Definition parse_usize (s : bytes) : option Z :=
  let ds := match s with x :: r => if N.eqb x ch_plus then r else s | [] => s end in
  match ds with
  | [] => None
  | _ => match digits_val 0 ds with
         | Some v => if (v <? 18446744073709551616)%Z then Some v else None
         | None => None
         end
  end.

(** what parse_args yields *)
Inductive pres :=
| PExit1                 (* rejected: status 1, nothing on stdout *)
| PInfo                  (* help or version: status 0, text not modelled *)
| PUnknown               (* a regex outside the modelled family *)
| POpt (o : opt).

Definition some_str (s : bytes) : option bytes := Some s.

Definition has_filler (l : ublist) : bool := existsb is_filler (items l).

(** sequencing helper: a value option either aborts the parse or continues *)
Definition with_value {A} (r : vres A) (k : option A -> args -> pres) : pres :=
  match r with
  | VNoValue => PExit1
  | VBad => PExit1
  | VAbsent l => k None l
  | VPresent x l => k (Some x) l
  end.

Definition with_flag (short long : bytes) (a : args) (k : bool -> args -> pres) : pres :=
  k (fst (contains short long a)) (snd (contains short long a)).

Definition is_some {A} (x : option A) : bool := match x with Some _ => true | None => false end.

Definition default_bounds : ublist := mkL [Bound (mkB (SSome 1) SCont true None)] SCont.

Definition pick_mode (mf mb mc ml : option ublist) : btype * ublist :=
  match mf with
  | Some x => (BFields, x)
  | None =>
      match mb with
      | Some x => (BBytes, x)
      | None =>
          match mc with
          | Some x => (BChars, x)
          | None =>
              match ml with
              | Some x => (BLines, x)
              | None => (BFields, default_bounds)
              end
          end
      end
  end.

Definition parse_regex_value (is_chars : bool) (a : args) : vres (option rx) :=
  if is_chars then VPresent (Some RxChars) a
  else match opt_value k_e k_regex some_str a with
       | VPresent s l => VPresent (match parse_re s with
                                   | Some r => Some (RxRe r)
                                   | None => None
                                   end) l
       | VAbsent l => VAbsent l
       | VNoValue => VNoValue
       | VBad => VBad
       end.

Definition parse_fallback_value (a : args) : vres bytes :=
  match opt_value k_fb [] some_str a with
  | VNoValue => VPresent [] (snd (contains k_fbeq [] a))
  | other => other
  end.

Definition parse_args (argv : args) : pres :=
  match argv with
  | [] => PInfo
  | _ =>
  with_flag k_h k_help argv (fun h a =>
  if h then PInfo else
  with_value (opt_value k_f k_fields parse_ublist a) (fun mf a =>
  with_value (opt_value k_c k_characters parse_ublist a) (fun mc a =>
  with_value (opt_value k_b k_bytes parse_ublist a) (fun mb a =>
  with_value (opt_value k_l k_lines parse_ublist a) (fun ml a =>
  let bt := fst (pick_mode mf mb mc ml) in
  let bounds := snd (pick_mode mf mb mc ml) in
  with_value (match bt with
              | BFields => opt_value k_d k_delimiter some_str a
              | _ => VAbsent a
              end) (fun md a =>
  let delim := match md with
               | Some x => x
               | None => match bt with BFields => [TAB] | BLines => [LF] | _ => [] end
               end in
  with_flag k_g k_greedy a (fun greedy a =>
  with_value (opt_value k_r k_replace some_str a) (fun repl0 a =>
  with_value (opt_value k_M k_fixed parse_usize a) (fun fixed a =>
  if match fixed with Some v => Z.eqb v 0 | None => false end then PExit1 else
  with_flag k_json [] a (fun has_json a =>
  with_flag k_j k_join a (fun has_join a =>
  with_flag k_nojoin [] a (fun has_no_join a =>
  let is_chars := btype_eqb bt BChars in
  if has_join && has_no_join then PExit1
  else if has_json && has_no_join then PExit1
  else if is_some repl0 && (has_no_join || has_json) then PExit1
  else if is_chars && has_no_join then PExit1
  else
  let repl1 := if is_chars then Some [] else repl0 in
  let repl := if has_json then Some [ch_comma] else repl1 in
  let join := has_join || has_json || is_some repl
              || (btype_eqb bt BLines && negb has_no_join) || is_chars in
  if has_json && negb is_chars && negb (btype_eqb bt BFields) then PExit1
  else
  match parse_regex_value is_chars a with
  | VNoValue => PExit1
  | VBad => PExit1
  | VPresent None _ => PUnknown
  | rxres =>
  let regex := match rxres with VPresent x _ => x | _ => None end in
  let a := match rxres with VPresent _ l => l | VAbsent l => l | _ => a end in
  if has_json && has_filler bounds then PExit1
  else
  with_flag k_m k_complement a (fun complement a =>
  with_flag k_s k_only a (fun only_delimited a =>
  with_flag k_p k_compress a (fun compress a =>
  with_flag k_V k_version a (fun version a =>
  with_flag k_z k_zero a (fun zero a =>
  with_value (opt_value k_t k_trim parse_trim a) (fun trim a =>
  with_value (parse_fallback_value a) (fun fallback a =>
  if version then PInfo
  else match a with
       | _ :: _ => PExit1
       | [] =>
           POpt (mkOpt (match bt with BLines => [if zero then NUL else LF] | _ => delim end)
                       (if zero then NUL else LF) bounds bt only_delimited greedy compress
                       repl trim complement join has_json (is_some fixed) fallback regex)
       end)))))))
  end))))))))))))
  end.
