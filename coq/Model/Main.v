(** Model of main(): dispatch on the parsed options *)
From TucModel Require Import Base.Bytes Model.Bounds Model.BoundsParse Model.Scan Model.Regex
     Model.Opt Model.CutBytes Model.CutStr Model.FastLane Model.CutLines Model.Args Model.Stream.

(** result of a whole run *)
Inductive mres :=
| MOut (o : outcome)
| MInfo                 (* help / version text, status 0 *)
| MUnknown.             (* outside what the model describes *)

Definition lift (x : option outcome) : mres :=
  match x with Some o => MOut o | None => MUnknown end.

Definition run_opt (o : opt) (input : bytes) : mres :=
  if o_fixed_memory o then
    match stream_opt o with
    | None => MOut (Fail [])
    | Some so => MOut (run_stream_whole so input)
    end
  else
    match o_btype o with
    | BBytes => MOut (cut_bytes (o_bounds o) (o_fallback o) input)
    | BLines => lift (read_and_cut_lines o input)
    | _ =>
        if fast_eligible o then lift (read_and_cut_fast o input)
        else lift (read_and_cut_str o input)
    end.

Definition run_main (argv : args) (input : bytes) : mres :=
  match parse_args argv with
  | PExit1 => MOut (Fail [])
  | PInfo => MInfo
  | PUnknown => MUnknown
  | POpt o => run_opt o input
  end.
