(** The option record (src/options.rs) *)
From TucModel Require Import Base.Bytes Model.Bounds Model.Scan Model.Regex.

Inductive btype := BBytes | BChars | BFields | BLines.

Definition btype_eqb (a b : btype) : bool :=
  match a, b with
  | BBytes, BBytes | BChars, BChars | BFields, BFields | BLines, BLines => true
  | _, _ => false
  end.

(** the regex bag: the -c splitter (\b|\B : an empty match at every scalar boundary)
    or a regex of the modelled family *)
Inductive rx := RxChars | RxRe (r : re).

Record opt := mkOpt {
  o_delim : bytes;
  o_eol : byte;
  o_bounds : ublist;
  o_btype : btype;
  o_only_delimited : bool;
  o_greedy : bool;
  o_compress : bool;
  o_replace : option bytes;
  o_trim : option trimk;
  o_complement : bool;
  o_join : bool;
  o_json : bool;
  o_fixed_memory : bool;
  o_fallback : option bytes;
  o_regex : option rx
}.
