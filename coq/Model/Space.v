(** An accounting model of what each path keeps resident (C17), following the allocations
    in the code: -M keeps only cursor state and looks at the current chunk; the record paths
    keep the current record, one range per field and (with -p) a compressed copy. *)
From TucModel Require Import Base.Bytes Model.Bounds Model.Scan Model.Opt Model.Stream.

Definition items_size (l : list bof) : nat :=
  fold_right (fun x n => match x with
                         | Filler f => length f
                         | Bound b => match bfb b with Some f => length f | None => 0 end
                         end + 1 + n) 0 l.

(** resident bytes of the streaming machine while it scans a chunk: the pending items (a
    suffix of the option's list), three machine words of cursor state, and the chunk *)
Definition stream_resident (its : list bof) (chunk : bytes) : nat := items_size its + 3 + length chunk.

(** resident bytes of the record paths for one record with [nf] fields *)
Definition record_resident (o : opt) (record : bytes) (nf : nat) : nat :=
  length record + 2 * nf + (if o_compress o then length record else 0) + items_size (items (o_bounds o)).
