(** Model of src/cut_lines.rs *)
From TucModel Require Import Base.Bytes Model.Bounds Model.Scan Model.Utf8 Model.Opt
     Model.CutBytes Model.CutStr.

(** lines as read_line / read_until deliver them, each with the flag
    "this line was terminated" (needed for the UTF-8 check of the raw line) *)
Definition lines_of (eol : byte) (l : bytes) : list bytes := records eol l.

Definition nonempty {A} (l : list A) : bool := match l with [] => false | _ => true end.

(** the inner while loop over the pending bounds, for one line.
    Returns (output, remaining items, add_newline_next). *)
Fixpoint fwd_bounds (o : opt) (bs : list bof) (add_nl : bool) (idx : Z) (line : bytes)
  : bytes * list bof * bool :=
  match bs with
  | [] => ([], [], add_nl)
  | Filler f :: bs' =>
      let sep := if o_join o && nonempty bs' then [o_eol o] else [] in
      let '(out, rest, a) := fwd_bounds o bs' add_nl idx line in
      (f ++ sep ++ out, rest, a)
  | Bound b :: bs' =>
      match matches b idx with
      | Some true =>
          let pre := (if add_nl then [o_eol o] else []) ++ line in
          if side_eqb (br b) (SSome idx) then
            let sep := if o_join o && nonempty bs' then [o_eol o] else [] in
            let '(out, rest, a) := fwd_bounds o bs' false idx line in
            (pre ++ sep ++ out, rest, a)
          else (pre, bs, true)
      | _ => ([], bs, add_nl)
      end
  end.

(** what is left when the input is exhausted: a bound that already printed lines is
    complete iff it is open on the right; every other pending bound is unresolvable
    and follows the fallback rule *)
Fixpoint fwd_tail (o : opt) (bs : list bof) : option bytes :=
  match bs with
  | [] => Some []
  | Filler f :: bs' =>
      let sep := if o_join o && nonempty bs' then [o_eol o] else [] in
      match fwd_tail o bs' with Some r => Some (f ++ sep ++ r) | None => None end
  | Bound b :: bs' =>
      match fallback_for b (o_fallback o) with
      | None => None
      | Some f =>
          let sep := if o_join o && nonempty bs' then [o_eol o] else [] in
          match fwd_tail o bs' with Some r => Some (f ++ sep ++ r) | None => None end
      end
  end.

Definition fwd_finish (o : opt) (bs : list bof) (add_nl : bool) : option bytes :=
  match bs with
  | Bound b :: bs' =>
      if add_nl then
        match br b with
        | SCont =>
            let sep := if o_join o && nonempty bs' then [o_eol o] else [] in
            match fwd_tail o bs' with Some r => Some (sep ++ r) | None => None end
        | _ => None
        end
      else fwd_tail o bs
  | _ => fwd_tail o bs
  end.

Fixpoint fwd_lines (o : opt) (ls : list bytes) (bs : list bof) (add_nl : bool) (idx : Z)
         (acc : bytes) : outcome :=
  match ls with
  | [] =>
      match fwd_finish o bs add_nl with
      | Some t => Done (acc ++ t ++ [o_eol o])
      | None => Fail []
      end
  | line :: ls' =>
      (* every line read is validated as UTF-8 (read_line; read_until + from_utf8 under -z) *)
      if negb (utf8_valid line) then Fail []
      else
        let idx' := (idx + 1)%Z in
        let '(out, rest, a) := fwd_bounds o bs add_nl idx' line in
        match rest with
        | [] => Done (acc ++ out ++ [o_eol o])
        | _ => fwd_lines o ls' rest a idx' (acc ++ out)
        end
  end.

Definition strip_one_suffix (eol : byte) (l : bytes) : bytes :=
  match rev l with
  | x :: r => if N.eqb x eol then rev r else l
  | [] => l
  end.

(** cut_lines (buffered): the whole input minus one trailing EOL, cut as one record *)
Definition cut_lines_buffered (o : opt) (input : bytes) : option outcome :=
  if negb (utf8_valid input) then Some (Fail [])
  else
    match cut_str o (strip_one_suffix (o_eol o) input) with
    | None => None
    | Some (ROk out) => Some (Done out)
    | Some RErr => Some (Fail [])
    | Some RPanic => Some Panic
    | Some RHang => Some Hang
    end.

Definition has_range_with_fallback (o : opt) : bool :=
  existsb (fun x => match x with
                    | Bound b => negb (side_eqb (bl b) (br b)) && negb (side_eqb (br b) SCont)
                                 && match fallback_for b (o_fallback o) with Some _ => true | None => false end
                    | Filler _ => false
                    end) (items (o_bounds o)).

Definition can_be_streamed (o : opt) : bool :=
  negb (o_complement o) && negb (o_compress o) && is_forward_only (items (o_bounds o))
  && negb (has_range_with_fallback o).

Definition read_and_cut_lines (o : opt) (input : bytes) : option outcome :=
  if can_be_streamed o then
    Some (fwd_lines o (lines_of (o_eol o) input) (items (o_bounds o)) false 0 [])
  else cut_lines_buffered o input.
