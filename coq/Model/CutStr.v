(** Model of src/cut_str.rs : cut_str and read_and_cut_str (the general path) *)
From TucModel Require Import Base.Bytes Model.Bounds Model.Scan Model.Utf8 Model.Json
     Model.Regex Model.Opt Model.CutBytes.

(** matches of the -c splitter: an empty match at every scalar boundary.
    [None] when the record is not valid UTF-8 (outside what the model describes). *)
Definition char_matches (line : bytes) : option (list mtch) :=
  match utf8_chars line with
  | Some cs => Some (map (fun p => (p, p)) (boundaries_from 0 cs))
  | None => None
  end.

Definition rx_normal (x : rx) (line : bytes) : option (list mtch) :=
  match x with
  | RxChars => char_matches line
  | RxRe r => Some (re_find_iter r line)
  end.

Definition rx_greedy (x : rx) (line : bytes) : option (list mtch) :=
  match x with
  | RxChars => char_matches line
  | RxRe r => Some (re_find_iter (RPlus r) line)
  end.

(** for_byte_record: the records of an input *)
Fixpoint records_aux (eol : byte) (cur : bytes) (l : bytes) : list bytes :=
  match l with
  | [] => match cur with [] => [] | _ => [rev cur] end
  | x :: l' => if N.eqb x eol then rev cur :: records_aux eol [] l'
               else records_aux eol (x :: cur) l'
  end.

Definition records (eol : byte) (l : bytes) : list bytes := records_aux eol [] l.

Definition drop_outer {A} (l : list A) : list A :=
  if Nat.ltb 2 (length l) then removelast (tl l) else l.

Definition needs_unpack (l : list bof) : bool :=
  existsb (fun x => match x with
                    | Bound b => negb (side_eqb (bl b) (br b)) || side_eqb (bl b) SCont
                    | Filler _ => false
                    end) l.

Definition range_start (fields : list mtch) (i : nat) : option nat :=
  match nth_error fields i with Some f => Some (fst f) | None => None end.
Definition range_end (fields : list mtch) (i : nat) : option nat :=
  match nth_error fields i with Some f => Some (snd f) | None => None end.

(** maybe_replace_delimiter, applied to selected data only *)
Definition maybe_replace (o : opt) (text : bytes) : option bytes :=
  match o_btype o with
  | BChars => Some text
  | _ =>
      match o_replace o with
      | None => Some text
      | Some nd =>
          match o_regex o with
          | Some x =>
              (* under -p the runs of matches have already been rewritten to the new delimiter *)
              if o_compress o then Some text
              else match rx_normal x text with
                   | Some ms => Some (replace_matches text ms nd)
                   | None => None
                   end
          | None => Some (replace_matches text (lit_matches (o_delim o) text) nd)
          end
      end
  end.

(** write_maybe_as_json: text that is not valid UTF-8 cannot become a JSON string ([None]) *)
Definition emit_part (o : opt) (text : bytes) : option bytes :=
  if o_json o then (if utf8_valid text then Some (json_string text) else None) else Some text.

(** the output loop of cut_str; [RPanic] where the code would index out of range *)
Fixpoint out_loop (o : opt) (line : bytes) (fields : list mtch) (bs : list bof) : rres :=
  match bs with
  | [] => ROk []
  | Filler f :: bs' =>
      match out_loop o line fields bs' with
      | ROk r => ROk (f ++ r)
      | e => e
      end
  | Bound b :: bs' =>
      let piece : rres :=
        match try_into_range b (length fields) with
        | Some (s, e) =>
            match range_start fields s, range_end fields (e - 1) with
            | Some a, Some z =>
                if Nat.leb a z && Nat.leb z (length line) then
                  match maybe_replace o (slice line a z) with
                  | Some t => match emit_part o t with Some p => ROk p | None => RErr end
                  | None => RHang (* unreachable: -c on invalid UTF-8 is cut off earlier *)
                  end
                else RPanic
            | _, _ => RPanic
            end
        | None =>
            match fallback_for b (o_fallback o) with
            | Some f => match emit_part o f with Some p => ROk p | None => RErr end
            | None => RErr
            end
        end in
      match piece with
      | ROk p =>
          let sep := if o_join o && negb (blast b)
                     then match o_replace o with Some nd => nd | None => o_delim o end
                     else [] in
          match out_loop o line fields bs' with
          | ROk r => ROk (p ++ sep ++ r)
          | e => e
          end
      | e => e
      end
  end.

(** [None] = the record is outside what the model describes (-c on invalid UTF-8) *)
Definition cut_str (o : opt) (line0 : bytes) : option rres :=
  let is_re := match o_regex o with Some _ => true | None => false end in
  let no_repl := match o_replace o with None => true | Some _ => false end in
  if is_re && no_repl && (o_compress o || o_join o) then Some RErr
  else
    let trimmed : option bytes :=
      match o_trim o with
      | None => Some line0
      | Some k =>
          match o_regex o with
          | Some x => match rx_greedy x line0 with
                      | Some ms => Some (trim_matches k ms line0)
                      | None => None
                      end
          | None => Some (trim_lit k (o_delim o) line0)
          end
      end in
    match trimmed with
    | None => None
    | Some [] => Some (ROk (if o_only_delimited o then [] else [o_eol o]))
    | Some line1 =>
        let should_compress :=
          o_compress o && (btype_eqb (o_btype o) BFields || btype_eqb (o_btype o) BLines) in
        (* (line, delimiter, use_regex) after the optional compression *)
        let staged : option (bytes * bytes * bool) :=
          if should_compress then
            match o_regex o with
            | Some x =>
                match rx_greedy x line1, o_replace o with
                | Some ms, Some nd => Some (replace_matches line1 ms nd, nd, false)
                | _, _ => None
                end
            | None => Some (compress_delimiter (o_delim o) line1, o_delim o, false)
            end
          else Some (line1, o_delim o, is_re) in
        match staged with
        | None => None
        | Some (line, delim, use_re) =>
            let ms : option (list mtch) :=
              if use_re then
                match o_regex o with
                | Some x => if o_greedy o then rx_greedy x line else rx_normal x line
                | None => Some []
                end
              else if o_greedy o then Some (merge_adjacent (lit_matches delim line))
              else Some (lit_matches delim line) in
            match ms with
            | None => None
            | Some ms =>
                let fields0 := fields_of_matches ms line in
                let fields := if btype_eqb (o_btype o) BChars then drop_outer fields0 else fields0 in
                let n := length fields in
                if o_only_delimited o && Nat.eqb n 1 then Some (ROk [])
                else
                  let b1 : option (list bof) :=
                    if o_complement o then
                      match complement_list (items (o_bounds o)) n with
                      | Some l => Some (items l)
                      | None => None
                      end
                    else Some (items (o_bounds o)) in
                  match b1 with
                  | None => Some RErr
                  | Some bs1 =>
                      let b2 : option (list bof) :=
                        if (o_json o || (btype_eqb (o_btype o) BChars
                                         && match o_replace o with Some _ => true | None => false end))
                           && needs_unpack bs1
                        then match unpack_list bs1 n with
                             | Some l => Some (items l)
                             | None => None
                             end
                        else Some bs1 in
                      match b2 with
                      | None => Some RPanic
                      | Some bs2 =>
                          match out_loop o line fields bs2 with
                          | ROk body =>
                              Some (ROk ((if o_json o then [ch_lbracket] else []) ++ body
                                         ++ (if o_json o then [ch_rbracket] else []) ++ [o_eol o]))
                          | e => Some e
                          end
                      end
                  end
            end
        end
    end.

(** run a per-record cutter over the records of the input *)
Fixpoint run_records (cut : bytes -> option rres) (rs : list bytes) (acc : bytes) : option outcome :=
  match rs with
  | [] => Some (Done acc)
  | r :: rs' =>
      match cut r with
      | None => None
      | Some (ROk o) => run_records cut rs' (acc ++ o)
      | Some RErr => Some (Fail acc)
      | Some RPanic => Some Panic
      | Some RHang => Some Hang
      end
  end.

Definition read_and_cut_str (o : opt) (input : bytes) : option outcome :=
  run_records (cut_str o) (records (o_eol o) input) [].
