(** A mini regular-expression engine: the family of -e arguments the model understands
    (literal characters, ASCII classes, concatenation, alternation, '+', groups), with
    leftmost-first (backtracking-priority) semantics like the regex crate.  Everything
    outside the family is reported as unknown by the parser and left out of the comparison. *)
From TucModel Require Import Base.Bytes Model.Scan Model.Utf8.

Inductive re :=
| RByte (b : byte)
| RClass (ranges : list (byte * byte))
| RCat (a b : re)
| RAlt (a b : re)
| RPlus (a : re).

Definition in_class (ranges : list (byte * byte)) (x : byte) : bool :=
  existsb (fun r => (fst r <=? x)%N && (x <=? snd r)%N) ranges.

(** [m r s k]: match [r] at the head of [s], then continue with [k] on the rest;
    the result is the final remaining suffix. *)
Fixpoint m (r : re) (s : bytes) (k : bytes -> option bytes) {struct r} : option bytes :=
  match r with
  | RByte b => match s with
               | x :: s' => if N.eqb x b then k s' else None
               | [] => None
               end
  | RClass rs => match s with
                 | x :: s' => if in_class rs x then k s' else None
                 | [] => None
                 end
  | RCat a b => m a s (fun s' => m b s' k)
  | RAlt a b => match m a s k with
                | Some x => Some x
                | None => m b s k
                end
  | RPlus a =>
      (fix loop (fuel : nat) (s0 : bytes) {struct fuel} : option bytes :=
         match fuel with
         | O => None
         | S f =>
             m a s0 (fun s' =>
                       if Nat.ltb (length s') (length s0) then
                         match loop f s' with
                         | Some x => Some x
                         | None => k s'
                         end
                       else k s')
         end) (S (length s)) s
  end.

(** length of the leftmost-first match of [r] at the head of [s] *)
Definition match_len (r : re) (s : bytes) : option nat :=
  match m r s (fun rest => Some rest) with
  | Some rest => Some (length s - length rest)
  | None => None
  end.

(** Regex::find_iter for non-empty matches *)
Fixpoint re_find_aux (r : re) (skip pos : nat) (l : bytes) : list mtch :=
  match l with
  | [] => []
  | _ :: l' =>
      match skip with
      | S k => re_find_aux r k (S pos) l'
      | O =>
          match match_len r l with
          | Some (S n) => (pos, pos + S n) :: re_find_aux r n (S pos) l'
          | _ => re_find_aux r 0 (S pos) l'
          end
      end
  end.

Definition re_find_iter (r : re) (l : bytes) : list mtch := re_find_aux r 0 0 l.

(** ------------------------------------------------------------------ *)
(** Parser for the family.  Meta characters anywhere else make the regex unknown. *)

Definition is_meta (b : byte) : bool :=
  existsb (N.eqb b) [92; 46; 42; 63; 123; 125; 94; 36; 40; 41; 91; 93; 124; 43]%N.

Fixpoint cat_bytes (bs : bytes) : option re :=
  match bs with
  | [] => None
  | [b] => Some (RByte b)
  | b :: bs' => match cat_bytes bs' with Some r => Some (RCat (RByte b) r) | None => None end
  end.

(** class items: single ASCII characters or a-b ranges, up to the closing bracket *)
Fixpoint parse_class (fuel : nat) (s : bytes) (acc : list (byte * byte))
  : option (list (byte * byte) * bytes) :=
  match fuel with
  | O => None
  | S f =>
      match s with
      | [] => None
      | x :: s' =>
          if N.eqb x 93 then (match acc with [] => None | _ => Some (rev acc, s') end)
          else if is_meta x || (128 <=? x)%N || N.eqb x 45 || N.eqb x 38 || N.eqb x 126 then None
          else
            match s' with
            | y :: z :: s'' =>
                if N.eqb y 45 then
                  if is_meta z || (128 <=? z)%N || N.eqb z 45 || (z <? x)%N then None
                  else parse_class f s'' ((x, z) :: acc)
                else parse_class f s' ((x, x) :: acc)
            | _ => parse_class f s' ((x, x) :: acc)
            end
      end
  end.

Fixpoint parse_alt (fuel : nat) (s : bytes) {struct fuel} : option (re * bytes) :=
  match fuel with
  | O => None
  | S f =>
      let parse_atom (s : bytes) : option (re * bytes) :=
        match s with
        | [] => None
        | x :: s' =>
            if N.eqb x 40 then
              match parse_alt f s' with
              | Some (r, y :: s'') => if N.eqb y 41 then Some (r, s'') else None
              | _ => None
              end
            else if N.eqb x 91 then
              match parse_class (length s') s' [] with
              | Some (rs, s'') => Some (RClass rs, s'')
              | None => None
              end
            else if is_meta x then None
            else
              match utf8_head_len s with
              | Some k => match cat_bytes (firstn k s) with
                          | Some r => Some (r, skipn k s)
                          | None => None
                          end
              | None => None
              end
        end in
      let parse_rep (s : bytes) : option (re * bytes) :=
        match parse_atom s with
        | Some (r, x :: s') => if N.eqb x 43 then Some (RPlus r, s') else Some (r, x :: s')
        | other => other
        end in
      let parse_cat :=
        (fix parse_cat (g : nat) (s : bytes) {struct g} : option (re * bytes) :=
           match g with
           | O => None
           | S g' =>
               match parse_rep s with
               | None => None
               | Some (r, s') =>
                   match s' with
                   | [] => Some (r, s')
                   | x :: _ =>
                       if N.eqb x 124 || N.eqb x 41 then Some (r, s')
                       else match parse_cat g' s' with
                            | Some (r2, s'') => Some (RCat r r2, s'')
                            | None => None
                            end
                   end
               end
           end) in
      match parse_cat (S (length s)) s with
      | None => None
      | Some (r, x :: s') =>
          if N.eqb x 124 then
            match parse_alt f s' with
            | Some (r2, s'') => Some (RAlt r r2, s'')
            | None => None
            end
          else Some (r, x :: s')
      | Some (r, []) => Some (r, [])
      end
  end.

(** The regex crate refuses patterns nested deeper than its parser's limit (250 by default, counted on
    its own syntax tree, and the program compiles variants of the pattern that nest one level deeper);
    patterns with a hundred or more opening parentheses are left outside the modelled family. *)
Definition parse_re (s : bytes) : option re :=
  if (100 <=? length (filter (N.eqb 40) s))%nat then None else
  match parse_alt (S (length s)) s with
  | Some (r, []) => Some r
  | _ => None
  end.
