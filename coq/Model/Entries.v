(** Entry points used by the correspondence driver (thin wrappers, no new logic). *)
From TucModel Require Import Base.Bytes Model.Bounds Model.BoundsParse Model.Scan Model.Regex
     Model.Opt Model.CutBytes Model.CutStr Model.FastLane Model.CutLines Model.Stream
     Model.Args Model.Main.

(** the general path forced (lib channel: read_and_cut_str on any field/char options) *)
Definition entry_general (argv : args) (input : bytes) : mres :=
  match parse_args argv with
  | POpt o => match o_btype o with
              | BFields | BChars => lift (read_and_cut_str o input)
              | _ => MUnknown
              end
  | PExit1 => MOut (Fail [])
  | PInfo => MInfo
  | PUnknown => MUnknown
  end.

(** the fast lane forced; unknown when the options are not eligible *)
Definition entry_fast (argv : args) (input : bytes) : mres :=
  match parse_args argv with
  | POpt o => if fast_eligible o then lift (read_and_cut_fast o input) else MUnknown
  | PExit1 => MOut (Fail [])
  | PInfo => MInfo
  | PUnknown => MUnknown
  end.

(** split [l] into pieces of the given sizes; what is left over forms a last piece *)
Fixpoint segment (sizes : list nat) (l : bytes) : list bytes :=
  match sizes with
  | [] => match l with [] => [] | _ => [l] end
  | n :: sizes' =>
      match l with
      | [] => []
      | _ => firstn n l :: segment sizes' (skipn n l)
      end
  end.

(** the streaming path on a prescribed segmentation of the input *)
Definition entry_stream (argv : args) (sizes : list nat) (input : bytes) : mres :=
  match parse_args argv with
  | POpt o => match stream_opt o with
              | Some so => MOut (run_stream so (segment sizes input))
              | None => MOut (Fail [])
              end
  | PExit1 => MOut (Fail [])
  | PInfo => MInfo
  | PUnknown => MUnknown
  end.

Definition entry_bounds (s : bytes) : option ublist := parse_ublist s.
