(** Model of src/stream.rs : the fixed-memory (-M) path.
    The reader is a list of chunks: what successive fill_buf() calls return when the
    previous chunk has been consumed completely (an unconsumed remainder is served again
    first, as BufReader does).  An empty chunk is end of input. *)
From TucModel Require Import Base.Bytes Model.Bounds Model.Scan Model.Opt Model.CutBytes.

Record sopt := mkSO {
  s_delim : byte;
  s_repl : option byte;
  s_join : bool;
  s_eol : byte;
  s_fallback : option bytes;
  s_items : list bof;
  s_lif : side                (* right side of the last bound *)
}.

(** ForwardBounds::try_from : forward only, and no bound starts where the previous ended *)
Fixpoint strict_from (prev_r : side) (bs : list ubound) : bool :=
  match bs with
  | [] => true
  | b :: bs' =>
      let l := match bl b with SCont => SSome 1 | s => s end in
      if side_eqb l prev_r then false else strict_from (br b) bs'
  end.

Definition forward_bounds_ok (l : list bof) : bool :=
  match l with
  | [] => false
  | _ => is_forward_only l && strict_from (SSome 0) (bounds_only l)
  end.

Definition last_bound_r (l : list bof) : side :=
  match rev (bounds_only l) with
  | b :: _ => br b
  | [] => SCont
  end.

(** StreamOpt::try_from *)
Definition stream_opt (o : opt) : option sopt :=
  match o_delim o with
  | [d] =>
      if o_complement o || o_greedy o || o_compress o || o_json o
         || negb (btype_eqb (o_btype o) BFields)
         || match o_replace o with Some [_] => false | Some _ => true | None => false end
         || match o_trim o with Some _ => true | None => false end
         || match o_regex o with Some _ => true | None => false end
         || o_only_delimited o
      then None
      else if forward_bounds_ok (items (o_bounds o)) then
        Some (mkSO d (match o_replace o with Some [r] => Some r | _ => None end)
                   (o_join o) (o_eol o) (o_fallback o) (items (o_bounds o))
                   (last_bound_r (items (o_bounds o))))
      else None
  | _ => None
  end.

Definition sdelim (so : sopt) : byte :=
  match s_repl so with Some r => r | None => s_delim so end.

(** print_bof: emit a pending filler, then the piece if the pending bound covers the
    current field; advance past the bound only when the field is complete. *)
Definition print_bof (so : sopt) (its : list bof) (curr : Z) (piece : bytes)
           (trunc complete : bool) : bytes * list bof :=
  let '(o1, its1) := match its with
                     | Filler f :: r => (f, r)
                     | _ => ([], its)
                     end in
  match its1 with
  | Bound b :: r =>
      match matches b curr with
      | Some true =>
          let pre := if negb trunc && (1 <? curr)%Z && negb (side_eqb (bl b) (SSome curr))
                     then [sdelim so] else [] in
          if complete && side_eqb (br b) (SSome curr) then
            (o1 ++ pre ++ piece ++ (if s_join so && negb (blast b) then [sdelim so] else []), r)
          else (o1 ++ pre ++ piece, its1)
      | _ => (o1, its1)
      end
  | _ => (o1, its1)
  end.

(** print_filler_or_fallbacks: what remains when a record with [n] fields ends *)
Fixpoint pff (so : sopt) (its : list bof) (n : Z) : option bytes :=
  match its with
  | [] => Some []
  | Filler f :: r => match pff so r n with Some t => Some (f ++ t) | None => None end
  | Bound b :: r =>
      let sep := if s_join so && negb (blast b) then [sdelim so] else [] in
      let started := match bl b with SCont => true | SSome l => (l <=? n)%Z end in
      if started && side_eqb (br b) SCont then pff so r n
      else
        match fallback_for b (s_fallback so) with
        | None => None
        | Some f => match pff so r n with Some t => Some (f ++ sep ++ t) | None => None end
        end
  end.

Inductive scan_res :=
| ChunkEnd (out : bytes) (its : list bof) (curr : Z) (trunc : bool)
| RecordEnd (out : bytes) (rest : bytes)
| SkipFrom (out : bytes) (rest : bytes)
| ScanErr.

(** the scan of one chunk; [piece] is the (reversed) text of the current field seen in
    this chunk so far *)
Fixpoint scan_chunk (so : sopt) (its : list bof) (curr : Z) (trunc : bool)
         (piece : bytes) (chunk : bytes) (out : bytes) : scan_res :=
  match chunk with
  | [] =>
      match piece with
      | [] => ChunkEnd out its curr trunc
      | _ => let '(o, its') := print_bof so its curr (rev piece) trunc false in
             ChunkEnd (out ++ o) its' curr true
      end
  | x :: rest =>
      if N.eqb x (s_eol so) then
        if Z.eqb curr 1 && negb trunc && match piece with [] => true | _ => false end
        then RecordEnd (out ++ [s_eol so]) rest
        else
          let '(o, its') := print_bof so its curr (rev piece) trunc true in
          match pff so its' curr with
          | None => ScanErr
          | Some t => RecordEnd (out ++ o ++ t ++ [s_eol so]) rest
          end
      else if N.eqb x (s_delim so) then
        let '(o, its') := print_bof so its curr (rev piece) trunc true in
        if side_eqb (SSome curr) (s_lif so) then
          match pff so its' curr with
          | None => ScanErr
          | Some t => SkipFrom (out ++ o ++ t) rest
          end
        else scan_chunk so its' (curr + 1)%Z false [] rest (out ++ o)
      else scan_chunk so its curr trunc (x :: piece) rest out
  end.

(** memchr(eol, ..): the text after the first EOL *)
Fixpoint after_eol (eol : byte) (l : bytes) : option bytes :=
  match l with
  | [] => None
  | x :: l' => if N.eqb x eol then Some l' else after_eol eol l'
  end.

Definition push_rest (rest : bytes) (cs : list bytes) : list bytes :=
  match rest with [] => cs | _ => rest :: cs end.

Inductive smode :=
| Normal (its : list bof) (curr : Z) (trunc : bool)
| Skipping.

Inductive rec_res :=
| REof                                          (* input exhausted before the record began *)
| RLast (out : bytes)                           (* final record without EOL *)
| RRecord (out : bytes) (cs : list bytes)       (* record complete; reader state *)
| RFail.

(** one record: chunks are consumed until its EOL (or end of input) *)
Fixpoint rec_chunks (so : sopt) (mode : smode) (started : bool) (cs : list bytes) (out : bytes)
  : rec_res :=
  let at_eof :=
    if started then
      match mode with
      | Skipping => RLast (out ++ [s_eol so])
      | Normal its curr trunc =>
          let '(o, its') := print_bof so its curr [] trunc true in
          match pff so its' curr with
          | None => RFail
          | Some t => RLast (out ++ o ++ t ++ [s_eol so])
          end
      end
    else REof in
  match cs with
  | [] => at_eof
  | [] :: _ => at_eof
  | c :: cs' =>
      match mode with
      | Skipping =>
          match after_eol (s_eol so) c with
          | Some rest => RRecord (out ++ [s_eol so]) (push_rest rest cs')
          | None => rec_chunks so Skipping true cs' out
          end
      | Normal its curr trunc =>
          match scan_chunk so its curr trunc [] c out with
          | ChunkEnd out' its' curr' trunc' => rec_chunks so (Normal its' curr' trunc') true cs' out'
          | RecordEnd out' rest => RRecord out' (push_rest rest cs')
          | SkipFrom out' rest =>
              match after_eol (s_eol so) rest with
              | Some rest' => RRecord (out' ++ [s_eol so]) (push_rest rest' cs')
              | None => rec_chunks so Skipping true cs' out'
              end
          | ScanErr => RFail
          end
      end
  end.

Definition total_len (cs : list bytes) : nat := fold_right (fun c n => length c + n) 0 cs.

Fixpoint run_stream_fuel (fuel : nat) (so : sopt) (cs : list bytes) (acc : bytes) : outcome :=
  match fuel with
  | O => Hang
  | S f =>
      match rec_chunks so (Normal (s_items so) 1 false) false cs [] with
      | REof => Done acc
      | RLast o => Done (acc ++ o)
      | RRecord o cs' => run_stream_fuel f so cs' (acc ++ o)
      | RFail => Fail acc
      end
  end.

Definition run_stream (so : sopt) (cs : list bytes) : outcome :=
  run_stream_fuel (S (total_len cs)) so cs [].

Definition run_stream_whole (so : sopt) (input : bytes) : outcome :=
  run_stream so (push_rest input []).
