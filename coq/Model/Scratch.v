(** The record cutters once more, with the scratch buffers the code reuses from one record to the next
    made explicit (src/cut_str.rs: [fields], [compressed_line_buf]; src/fast_lane.rs: [fields]) and the
    vector operations in the order the code performs them ([clear], [push], [pop], [drain(..1)],
    [extend]).  A record's cutter takes the buffers as the previous record left them and hands them on.
    Nothing here is used by the extracted program; Proofs/C10Scratch.v shows that what is printed does
    not depend on the incoming buffers. *)
From TucModel Require Import Base.Bytes Model.Bounds Model.Scan Model.Regex Model.Opt Model.CutStr Model.FastLane.

Record scratch := mkScr {
  sc_fields : list mtch;      (* cut_str.rs: fields: Vec<Range<usize>> *)
  sc_cbuf : bytes;            (* cut_str.rs: compressed_line_buf: Vec<u8> *)
  sc_starts : list nat        (* fast_lane.rs: fields: Vec<usize> *)
}.

Definition v_clear {A} (v : list A) : list A := [].
Definition v_push {A} (v : list A) (x : A) : list A := v ++ [x].
Definition v_extend {A} (v w : list A) : list A := v ++ w.
Definition v_pop {A} (v : list A) : list A := removelast v.
Definition v_drain1 {A} (v : list A) : list A := tl v.

(** fill_with_fields_locations{,_greedy,_using_regex}: clear, then one push per match and a last one *)
Fixpoint fill_push (buf : list mtch) (prev : nat) (ms : list mtch) (len : nat) : list mtch :=
  match ms with
  | [] => v_push buf (prev, len)
  | m :: ms' => fill_push (v_push buf (prev, fst m)) (snd m) ms' len
  end.

Definition fill_fields (buf : list mtch) (ms : list mtch) (line : bytes) : list mtch :=
  let buf := v_clear buf in
  match line with
  | [] => buf
  | _ => fill_push buf 0 ms (length line)
  end.

(** compress_delimiter: clear, then extend piece by piece *)
Fixpoint compress_push (out : bytes) (d line : bytes) (prev : nat) (ps : list nat) : bytes :=
  match ps with
  | [] => if Nat.ltb prev (length line) then v_extend out (skipn prev line) else out
  | idx :: ps' =>
      let prev_part := slice line prev idx in
      let out := if Nat.eqb idx 0 then v_extend out d
                 else match prev_part with [] => out | _ => v_extend (v_extend out prev_part) d end in
      compress_push out d line (idx + length d) ps'
  end.

Definition compress_st (out : bytes) (d line : bytes) : bytes :=
  compress_push (v_clear out) d line 0 (find_iter d line).

(** everything of cut_str after the fields table has been built *)
Definition cut_tail (o : opt) (line : bytes) (fields : list mtch) : option rres :=
  let n := length fields in
  if o_only_delimited o && Nat.eqb n 1 then Some (ROk [])
  else
    let b1 : option (list bof) :=
      if o_complement o then
        match complement_list (items (o_bounds o)) n with
        | Some l => Some (items l)
        | None => None
        end
      else Some (items (o_bounds o)) in
    match b1 with
    | None => Some RErr
    | Some bs1 =>
        let b2 : option (list bof) :=
          if (o_json o || (btype_eqb (o_btype o) BChars
                           && match o_replace o with Some _ => true | None => false end))
             && needs_unpack bs1
          then match unpack_list bs1 n with
               | Some l => Some (items l)
               | None => None
               end
          else Some bs1 in
        match b2 with
        | None => Some RPanic
        | Some bs2 =>
            match out_loop o line fields bs2 with
            | ROk body =>
                Some (ROk ((if o_json o then [ch_lbracket] else []) ++ body
                           ++ (if o_json o then [ch_rbracket] else []) ++ [o_eol o]))
            | e => Some e
            end
        end
    end.

(** cut_str with the scratch buffers threaded through *)
Definition cut_str_st (s : scratch) (o : opt) (line0 : bytes) : option rres * scratch :=
  let is_re := match o_regex o with Some _ => true | None => false end in
  let no_repl := match o_replace o with None => true | Some _ => false end in
  if is_re && no_repl && (o_compress o || o_join o) then (Some RErr, s)
  else
    let trimmed : option bytes :=
      match o_trim o with
      | None => Some line0
      | Some k =>
          match o_regex o with
          | Some x => match rx_greedy x line0 with
                      | Some ms => Some (trim_matches k ms line0)
                      | None => None
                      end
          | None => Some (trim_lit k (o_delim o) line0)
          end
      end in
    match trimmed with
    | None => (None, s)
    | Some [] => (Some (ROk (if o_only_delimited o then [] else [o_eol o])), s)
    | Some line1 =>
        let should_compress :=
          o_compress o && (btype_eqb (o_btype o) BFields || btype_eqb (o_btype o) BLines) in
        (* (line, delimiter, use_regex, scratch) after the optional compression: the literal variant
           writes the compressed copy into the reused buffer and cuts that *)
        let staged : option (bytes * bytes * bool * scratch) :=
          if should_compress then
            match o_regex o with
            | Some x =>
                match rx_greedy x line1, o_replace o with
                | Some ms, Some nd => Some (replace_matches line1 ms nd, nd, false, s)
                | _, _ => None
                end
            | None =>
                let cb := compress_st (sc_cbuf s) (o_delim o) line1 in
                Some (cb, o_delim o, false, mkScr (sc_fields s) cb (sc_starts s))
            end
          else Some (line1, o_delim o, is_re, s) in
        match staged with
        | None => (None, s)
        | Some (line, delim, use_re, s1) =>
            let ms : option (list mtch) :=
              if use_re then
                match o_regex o with
                | Some x => if o_greedy o then rx_greedy x line else rx_normal x line
                | None => Some []
                end
              else if o_greedy o then Some (merge_adjacent (lit_matches delim line))
              else Some (lit_matches delim line) in
            match ms with
            | None => (None, s1)
            | Some ms =>
                let f1 := fill_fields (sc_fields s1) ms line in
                (* -c: fields.pop(); fields.drain(..1) on the reused vector itself, when it has more than two entries *)
                let f2 := if btype_eqb (o_btype o) BChars && Nat.ltb 2 (length f1) then v_drain1 (v_pop f1) else f1 in
                (cut_tail o line f2, mkScr f2 (sc_cbuf s1) (sc_starts s1))
            end
        end
    end.

(** cut_str_fast_lane with its reused vector of field starts *)
Fixpoint scan_push (v : list nat) (lif : side) (curr : Z) (ps : list nat) : list nat * Z :=
  match ps with
  | [] => (v, curr)
  | i :: ps' =>
      let curr' := (curr + 1)%Z in
      let v := v_push v (S i) in
      if side_eqb (SSome curr') lif then (v, curr') else scan_push v lif curr' ps'
  end.

Definition cut_fast_st (s : scratch) (o : opt) (line0 : bytes) : rres * scratch :=
  match o_delim o with
  | [d] =>
      let buffer := match o_trim o with
                    | Some k => trim_lit k [d] line0
                    | None => line0
                    end in
      match buffer with
      | [] => (ROk (if o_only_delimited o then [] else [o_eol o]), s)
      | _ =>
          let lif := lif (o_bounds o) in
          let v := v_push (v_clear (sc_starts s)) 0 in
          let '(v, curr) := scan_push v lif 0 (positions_from d 0 buffer) in
          if Z.eqb curr 0 && o_only_delimited o then (ROk [], mkScr (sc_fields s) (sc_cbuf s) v)
          else
            let v := if side_eqb (SSome curr) lif then v else v_push v (S (length buffer)) in
            (match fast_out o d buffer v (items (o_bounds o)) with
             | ROk body => ROk (body ++ [o_eol o])
             | e => e
             end, mkScr (sc_fields s) (sc_cbuf s) v)
      end
  | _ => (RPanic, s)
  end.

(** a run: the buffers are created once and handed from record to record *)
Fixpoint run_records_st (cut : scratch -> bytes -> option rres * scratch) (rs : list bytes) (acc : bytes) (s : scratch)
  : option outcome * scratch :=
  match rs with
  | [] => (Some (Done acc), s)
  | r :: rs' =>
      match cut s r with
      | (None, s') => (None, s')
      | (Some (ROk o), s') => run_records_st cut rs' (acc ++ o) s'
      | (Some RErr, s') => (Some (Fail acc), s')
      | (Some RPanic, s') => (Some Panic, s')
      | (Some RHang, s') => (Some Hang, s')
      end
  end.

Definition scratch0 : scratch := mkScr [] [] [].

Definition read_and_cut_str_st (o : opt) (input : bytes) : option outcome :=
  fst (run_records_st (fun s r => cut_str_st s o r) (records (o_eol o) input) [] scratch0).

Definition read_and_cut_fast_st (o : opt) (input : bytes) : option outcome :=
  fst (run_records_st (fun s r => let '(x, s') := cut_fast_st s o r in (Some x, s')) (records (o_eol o) input) [] scratch0).
