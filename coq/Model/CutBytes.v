(** Model of src/cut_bytes.rs *)
From TucModel Require Import Base.Bytes Model.Bounds.

(** the three-way rule shared by every path: data, else the bound's own fallback,
    else the generic fallback, else failure *)
Definition fallback_for (b : ubound) (generic : option bytes) : option bytes :=
  match bfb b with
  | Some f => Some f
  | None => generic
  end.

Fixpoint cut_bytes_items (l : list bof) (generic : option bytes) (data : bytes) : option bytes :=
  match l with
  | [] => Some []
  | Filler f :: l' =>
      match cut_bytes_items l' generic data with
      | Some r => Some (f ++ r)
      | None => None
      end
  | Bound b :: l' =>
      let out :=
        match try_into_range b (length data) with
        | Some (s, e) => Some (slice data s e)
        | None => fallback_for b generic
        end in
      match out with
      | None => None
      | Some o =>
          match cut_bytes_items l' generic data with
          | Some r => Some (o ++ r)
          | None => None
          end
      end
  end.

Definition cut_bytes (l : ublist) (generic : option bytes) (data : bytes) : outcome :=
  match data with
  | [] => Done []
  | _ => match cut_bytes_items (items l) generic data with
         | Some o => Done o
         | None => Fail []
         end
  end.
