(** Extraction of the executable model to OCaml.  ExtrOcamlBasic only: bool, option,
    unit, list, prod, sumbool map to OCaml's; numbers stay the extracted inductives. *)
From Coq Require Import ExtrOcamlBasic.
From TucModel Require Import Base.Bytes Model.Bounds Model.Main Model.Entries.
Extraction Language OCaml.
Extraction "model.ml" run_main entry_general entry_fast entry_stream entry_bounds.
