// rs2coq: translate the pure integer / decision core of riquito/tuc from Rust source to Gallina.
//
//   rs2coq <repo-root> <out-dir>
//
// For every target function listed in TARGETS the tool parses the current source file with `syn`,
// finds the function, and writes <out-dir>/Gen_<name>.v holding one Gallina definition `gen_<name>`
// in the result monad of Tie/RsPrelude.v (`rs A := Ret a | Panic`): i32/usize arithmetic is checked
// (overflow = Panic, the debug-build semantics), `as` casts wrap, `Result`/`Option` values become
// `option` (the error payload, a message, is dropped), `bail!`/`return`/`?` become early exits,
// `match` arms are tried in order with their guards. Anything outside the supported subset makes
// the function "unsupported": no file is written for it and status.json says why.
// status.json: { "<name>": {"status": "ok"|"unsupported"|"missing", "detail": "...", "source": "file:line"} }
use std::collections::HashMap;
use std::fmt::Write as _;
use syn::spanned::Spanned;
use syn::*;

struct Target {
    name: &'static str,          // gallina name suffix
    file: &'static str,          // path below the repo root
    impl_trait: Option<&'static str>,
    impl_self: Option<&'static str>,
    func: &'static str,
    calls: &'static [(&'static str, &'static str)], // rust callee / method name -> gallina function
    deps: &'static [&'static str],                  // other targets this one needs
    imports: &'static str,                          // further modules the generated file needs
    ret_muts: bool,                                 // return the final value of the `&mut Vec` parameters with the result
    fuel: &'static str,                             // gallina term bounding the iterations of its `while` loops ("" = none allowed)
}

const TARGETS: &[Target] = &[
    Target { name: "side_partial_cmp", file: "src/bounds/side.rs", impl_trait: Some("PartialOrd"), impl_self: Some("Side"),
             func: "partial_cmp", calls: &[], deps: &[], imports: "", ret_muts: false, fuel: "" },
    Target { name: "ub_partial_cmp", file: "src/bounds/userbounds.rs", impl_trait: Some("PartialOrd"), impl_self: Some("UserBounds"),
             func: "partial_cmp", calls: &[("partial_cmp", "gen_side_partial_cmp")], deps: &["side_partial_cmp"], imports: "", ret_muts: false, fuel: "" },
    Target { name: "ub_matches", file: "src/bounds/userbounds.rs", impl_trait: Some("UserBoundsTrait"), impl_self: Some("UserBounds"),
             func: "matches", calls: &[], deps: &[], imports: "", ret_muts: false, fuel: "" },
    Target { name: "ub_try_into_range", file: "src/bounds/userbounds.rs", impl_trait: Some("UserBoundsTrait"), impl_self: Some("UserBounds"),
             func: "try_into_range", calls: &[], deps: &[], imports: "", ret_muts: false, fuel: "" },
    Target { name: "complement_std_range", file: "src/bounds/userbounds.rs", impl_trait: None, impl_self: None,
             func: "complement_std_range", calls: &[], deps: &[], imports: "", ret_muts: false, fuel: "" },
    Target { name: "ub_new", file: "src/bounds/userbounds.rs", impl_trait: Some("UserBoundsTrait"), impl_self: Some("UserBounds"),
             func: "new", calls: &[], deps: &[], imports: "", ret_muts: false, fuel: "" },
    Target { name: "ub_from_range", file: "src/bounds/userbounds.rs", impl_trait: Some("From"), impl_self: Some("UserBounds"),
             func: "from", calls: &[("UserBounds::new", "gen_ub_new")], deps: &["ub_new"], imports: "", ret_muts: false, fuel: "" },
    Target { name: "ub_unpack", file: "src/bounds/userbounds.rs", impl_trait: Some("UserBoundsTrait"), impl_self: Some("UserBounds"),
             func: "unpack", calls: &[("UserBounds::new", "gen_ub_new"), ("try_into_range", "gen_ub_try_into_range")], deps: &["ub_new", "ub_try_into_range"], imports: "", ret_muts: false, fuel: "" },
    Target { name: "ub_complement", file: "src/bounds/userbounds.rs", impl_trait: Some("UserBoundsTrait"), impl_self: Some("UserBounds"),
             func: "complement", calls: &[("try_into_range", "gen_ub_try_into_range"), ("complement_std_range", "gen_complement_std_range"), ("into", "gen_ub_from_range")],
             deps: &["ub_try_into_range", "complement_std_range", "ub_from_range"], imports: "", ret_muts: false, fuel: "" },
    Target { name: "ubl_bounds_only", file: "src/bounds/userboundslist.rs", impl_trait: None, impl_self: Some("UserBoundsList"),
             func: "get_userbounds_only", calls: &[], deps: &[], imports: "", ret_muts: false, fuel: "" },
    Target { name: "ubl_is_sortable", file: "src/bounds/userboundslist.rs", impl_trait: None, impl_self: Some("UserBoundsList"),
             func: "is_sortable", calls: &[("get_userbounds_only", "gen_ubl_bounds_only")], deps: &["ubl_bounds_only"], imports: "", ret_muts: false, fuel: "" },
    Target { name: "ubl_is_sorted", file: "src/bounds/userboundslist.rs", impl_trait: None, impl_self: Some("UserBoundsList"),
             func: "is_sorted", calls: &[("get_userbounds_only", "gen_ubl_bounds_only"), ("<=UserBounds", "gen_ub_partial_cmp")], deps: &["ubl_bounds_only", "ub_partial_cmp"], imports: "", ret_muts: false, fuel: "" },
    Target { name: "ubl_has_negative_indices", file: "src/bounds/userboundslist.rs", impl_trait: None, impl_self: Some("UserBoundsList"),
             func: "has_negative_indices", calls: &[("get_userbounds_only", "gen_ubl_bounds_only")], deps: &["ubl_bounds_only"], imports: "", ret_muts: false, fuel: "" },
    Target { name: "ubl_is_forward_only", file: "src/bounds/userboundslist.rs", impl_trait: None, impl_self: Some("UserBoundsList"),
             func: "is_forward_only", calls: &[("is_sortable", "gen_ubl_is_sortable"), ("is_sorted", "gen_ubl_is_sorted"), ("has_negative_indices", "gen_ubl_has_negative_indices")],
             deps: &["ubl_is_sortable", "ubl_is_sorted", "ubl_has_negative_indices"], imports: "", ret_muts: false, fuel: "" },
    Target { name: "side_from_str", file: "src/bounds/side.rs", impl_trait: Some("FromStr"), impl_self: Some("Side"),
             func: "from_str", calls: &[], deps: &[], imports: "Model.BoundsParse Tie.RsStr", ret_muts: false, fuel: "" },
    Target { name: "ub_from_str", file: "src/bounds/userbounds.rs", impl_trait: Some("FromStr"), impl_self: Some("UserBounds"),
             func: "from_str", calls: &[("Side::from_str", "gen_side_from_str"), ("UserBounds::new", "gen_ub_new")], deps: &["side_from_str", "ub_new"],
             imports: "Model.BoundsParse Tie.RsStr", ret_muts: false, fuel: "" },
    Target { name: "ubl_unpack", file: "src/bounds/userboundslist.rs", impl_trait: None, impl_self: Some("UserBoundsList"),
             func: "unpack", calls: &[("unpack", "gen_ub_unpack"), ("into", "model_from_vec")], deps: &["ub_unpack"], imports: "Tie.RsList", ret_muts: false, fuel: "" },
    Target { name: "ubl_complement", file: "src/bounds/userboundslist.rs", impl_trait: None, impl_self: Some("UserBoundsList"),
             func: "complement", calls: &[("complement", "gen_ub_complement"), ("into", "model_from_vec")], deps: &["ub_complement"], imports: "Tie.RsList", ret_muts: false, fuel: "" },
    Target { name: "cut_bytes", file: "src/cut_bytes.rs", impl_trait: None, impl_self: None,
             func: "cut_bytes", calls: &[("try_into_range", "gen_ub_try_into_range")], deps: &["ub_try_into_range"],
             imports: "Model.Scan Model.Regex Model.Opt Tie.RsOpt Tie.RsStr Tie.RsList", ret_muts: false, fuel: "" },
    Target { name: "fast_output_parts", file: "src/fast_lane.rs", impl_trait: None, impl_self: None,
             func: "output_parts", calls: &[("try_into_range", "gen_ub_try_into_range")], deps: &["ub_try_into_range"],
             imports: "Model.Scan Model.Regex Model.Opt Tie.RsOpt Tie.RsStr Tie.RsList", ret_muts: false, fuel: "" },
    Target { name: "fast_cut_record", file: "src/fast_lane.rs", impl_trait: None, impl_self: None,
             func: "cut_str_fast_lane", calls: &[("output_parts", "gen_fast_output_parts"), ("trim", "model_trim")], deps: &["fast_output_parts"],
             imports: "Model.Scan Model.Regex Model.Opt Tie.RsOpt Tie.RsStr Tie.RsList", ret_muts: false, fuel: "" },
    Target { name: "fill_fields", file: "src/cut_str.rs", impl_trait: None, impl_self: None,
             func: "fill_with_fields_locations", calls: &[], deps: &[], imports: "Model.Scan Tie.RsStr Tie.RsScan", ret_muts: true, fuel: "" },
    Target { name: "compress_delimiter", file: "src/cut_str.rs", impl_trait: None, impl_self: None,
             func: "compress_delimiter", calls: &[], deps: &[], imports: "Model.Scan Tie.RsStr Tie.RsScan", ret_muts: true, fuel: "" },
    Target { name: "trim", file: "src/cut_str.rs", impl_trait: None, impl_self: None,
             func: "trim", calls: &[], deps: &[], imports: "Model.Scan Tie.RsStr Tie.RsScan", ret_muts: false, fuel: "(S (length buffer))" },
    Target { name: "fb_try_from", file: "src/stream.rs", impl_trait: Some("TryFrom"), impl_self: Some("ForwardBounds"),
             func: "try_from", calls: &[("is_forward_only", "gen_ubl_is_forward_only"), ("into", "model_from_vec")], deps: &["ubl_is_forward_only"],
             imports: "Model.Scan Model.Regex Model.Opt Model.Stream Tie.RsOpt Tie.RsList", ret_muts: false, fuel: "" },
    Target { name: "fill_regex", file: "src/cut_str.rs", impl_trait: None, impl_self: None,
             func: "fill_with_fields_locations_using_regex", calls: &[], deps: &[],
             imports: "Model.Scan Model.Regex Model.Opt Model.CutStr Tie.RsStr Tie.RsRegex", ret_muts: true, fuel: "" },
    Target { name: "trim_regex", file: "src/cut_str.rs", impl_trait: None, impl_self: None,
             func: "trim_regex", calls: &[], deps: &[],
             imports: "Model.Scan Model.Regex Model.Opt Model.CutStr Tie.RsStr Tie.RsRegex", ret_muts: false, fuel: "" },
    Target { name: "compress_regex", file: "src/cut_str.rs", impl_trait: None, impl_self: None,
             func: "compress_delimiter_with_regex", calls: &[("replace_all", "rx_replace_all")], deps: &[],
             imports: "Model.Scan Model.Regex Model.Opt Model.CutStr Tie.RsRegex", ret_muts: false, fuel: "" },
    Target { name: "print_field", file: "src/stream.rs", impl_trait: None, impl_self: None, func: "print_field", calls: &[], deps: &[],
             imports: "Model.Scan Model.Regex Model.Opt Model.Stream Tie.RsOpt Tie.RsList", ret_muts: false, fuel: "" },
    Target { name: "print_bof", file: "src/stream.rs", impl_trait: None, impl_self: None, func: "print_bof",
             calls: &[("matches", "gen_ub_matches"), ("print_field", "gen_print_field")], deps: &["ub_matches", "print_field"],
             imports: "Model.Scan Model.Regex Model.Opt Model.Stream Tie.RsOpt Tie.RsStr Tie.RsList", ret_muts: false, fuel: "" },
    Target { name: "print_rest", file: "src/stream.rs", impl_trait: None, impl_self: None, func: "print_filler_or_fallbacks",
             calls: &[("matches", "gen_ub_matches")], deps: &["ub_matches"],
             imports: "Model.Scan Model.Regex Model.Opt Model.Stream Tie.RsOpt Tie.RsStr Tie.RsList", ret_muts: false, fuel: "" },
    Target { name: "maybe_replace", file: "src/cut_str.rs", impl_trait: None, impl_self: None,
             func: "maybe_replace_delimiter", calls: &[("replace_all", "rx_replace_all")], deps: &[],
             imports: "Model.Scan Model.Regex Model.Opt Model.CutStr Tie.RsRegex", ret_muts: false, fuel: "" },
    Target { name: "cut_str", file: "src/cut_str.rs", impl_trait: None, impl_self: None, func: "cut_str",
             calls: &[("trim", "gen_trim"), ("trim_regex", "gen_trim_regex"), ("compress_delimiter", "gen_compress_delimiter"),
                      ("compress_delimiter_with_regex", "gen_compress_regex"), ("fill_with_fields_locations", "gen_fill_fields"),
                      ("fill_with_fields_locations_greedy", "model_fill_greedy"), ("fill_with_fields_locations_using_regex", "gen_fill_regex"),
                      ("complement", "gen_ubl_complement"), ("unpack", "gen_ubl_unpack"), ("try_into_range", "gen_ub_try_into_range"),
                      ("maybe_replace_delimiter", "gen_maybe_replace")],
             deps: &["trim", "trim_regex", "compress_delimiter", "compress_regex", "fill_fields", "fill_regex", "ubl_complement", "ubl_unpack", "ub_try_into_range", "maybe_replace"],
             imports: "Model.Scan Model.Regex Model.Opt Model.Utf8 Model.Json Model.CutStr Tie.RsOpt Tie.RsStr Tie.RsList Tie.RsScan Tie.RsRegex Tie.RsCut", ret_muts: false, fuel: "" },
    Target { name: "cut_lines", file: "src/cut_lines.rs", impl_trait: None, impl_self: None, func: "cut_lines",
             calls: &[("cut_str", "gen_cut_str")], deps: &["cut_str"],
             imports: "Model.Scan Model.Regex Model.Opt Model.Utf8 Model.CutStr Model.CutLines Tie.RsOpt Tie.RsStr Tie.RsList Tie.RsRegex Tie.RsCut Tie.RsLines", ret_muts: false, fuel: "" },
    Target { name: "read_and_cut_bytes", file: "src/cut_bytes.rs", impl_trait: None, impl_self: None, func: "read_and_cut_bytes",
             calls: &[("cut_bytes", "gen_cut_bytes")], deps: &["cut_bytes"],
             imports: "Model.Scan Model.Regex Model.Opt Tie.RsOpt Tie.RsStr Tie.RsList", ret_muts: false, fuel: "" },
    Target { name: "get_last_bound", file: "src/stream.rs", impl_trait: None, impl_self: Some("ForwardBounds"), func: "get_last_bound",
             calls: &[], deps: &[], imports: "Model.Scan Model.Regex Model.Opt Model.Stream Tie.RsOpt Tie.RsList", ret_muts: false, fuel: "" },
    Target { name: "lines_forward", file: "src/cut_lines.rs", impl_trait: None, impl_self: None, func: "cut_lines_forward_only",
             calls: &[("matches", "gen_ub_matches")], deps: &["ub_matches"],
             imports: "Model.Scan Model.Regex Model.Opt Model.Utf8 Model.CutStr Model.CutLines Tie.RsOpt Tie.RsStr Tie.RsList Tie.RsLines", ret_muts: false,
             fuel: "(S (length stdin + length (items (o_bounds opt))))" },
    Target { name: "read_and_cut_lines", file: "src/cut_lines.rs", impl_trait: None, impl_self: None,
             func: "read_and_cut_lines", calls: &[("is_forward_only", "gen_ubl_is_forward_only"), ("cut_lines_forward_only", "gen_lines_forward"), ("cut_lines", "gen_cut_lines")],
             deps: &["ubl_is_forward_only", "lines_forward", "cut_lines"],
             imports: "Model.Scan Model.Regex Model.Opt Model.CutStr Model.CutLines Tie.RsList Tie.RsLines", ret_muts: false, fuel: "" },
    Target { name: "fast_try_from", file: "src/fast_lane.rs", impl_trait: Some("TryFrom"), impl_self: Some("FastOpt"),
             func: "try_from", calls: &[], deps: &[], imports: "Model.Scan Model.Regex Model.Opt Tie.RsOpt", ret_muts: false, fuel: "" },
    Target { name: "stream_try_from", file: "src/stream.rs", impl_trait: Some("TryFrom"), impl_self: Some("StreamOpt"),
             func: "try_from", calls: &[("ForwardBounds::try_from", "model_forward_try_from")], deps: &[], imports: "Model.Scan Model.Regex Model.Opt Model.Stream Tie.RsOpt", ret_muts: false, fuel: "" },
];

const WRITE_MAYBE_AS_JSON: &str = "($writer:ident,$to_print:ident,$as_json:expr)=>{{if$as_json{$writer.write_all(serde_json::to_string(std::str::from_utf8(&$to_print)?)?.as_bytes())?;}else{$writer.write_all(&$to_print)?;}}};";

#[derive(Clone, PartialEq, Debug)]
enum Ty { I32, Usize, Int, Bool, Side, UB, UBL, Regex, Trim, StreamRec, FBRec, Range, Opt(Box<Ty>), List(Box<Ty>), OptRec, FastRec, BType, Bytes, Byte, Str, Pair(Box<Ty>, Box<Ty>), Other }

type R<T> = std::result::Result<T, String>;

struct Cx {
    env: Vec<(String, Ty)>,
    /// (index in env, rust name, gallina name): binders that shadow an outer name in a function whose
    /// continuations are inlined get a fresh gallina name, so that the inlined text keeps meaning the outer one
    renames: Vec<(usize, String, String)>,
    fresh: usize,
    calls: HashMap<String, String>,
    call_ty: HashMap<String, Ty>,
    tuple_hint: Vec<Ty>,
    ret_ty: String,
    /// functions with `let mut`: continuations are inlined textually instead of being let-bound, so that
    /// what follows an assignment sees the new value (names are never shadowed in such functions)
    inline_k: bool,
    muts: Vec<String>,
    rebind_ok: bool,
    /// parameters of type `&mut W` (W: Write): what is written to them is accumulated and returned with the result
    writers: Vec<String>,
    /// parameters of type `&mut R` (R: BufRead): the input that is left
    readers: Vec<String>,
    /// the state tuple of the enclosing `for` loops, for `break`
    loop_state: Vec<String>,
    fuel: String,
    /// what `return e` means here: the function's result, a loop's `Break`, a closure's value
    retk_stack: Vec<String>,
    /// when set: (name prefix, address range of the function's top-level statements); what follows each
    /// top-level statement becomes a definition of its own (a stage), applied to the variables it uses
    stage_top: Option<(String, usize, usize, usize)>,
    stages: Vec<String>,
    body_text: String,
}

const KEYWORDS: &[&str] = &["end", "match", "with", "fun", "let", "in", "if", "then", "else", "return", "as", "at", "fix",
    "forall", "exists", "Type", "Set", "Prop", "where", "for", "using", "cofix", "struct", "mod", "left", "right", "by", "do", "Some", "None"];

/// free functions of src/cut_str.rs that fill a scratch vector handed in by `&mut`: the position of that argument
fn coq_ty(t: &Ty) -> Option<String> {
    Some(match t {
        Ty::I32 | Ty::Usize | Ty::Int => "Z".into(), Ty::Bool => "bool".into(), Ty::Side => "side".into(), Ty::UB => "ubound".into(), Ty::UBL => "ublist".into(),
        Ty::Regex => "(rx * bool)%type".into(), Ty::Trim => "trimk".into(), Ty::Range => "(Z * Z)%type".into(),
        Ty::Opt(x) => format!("(option {})", coq_ty(x)?), Ty::List(x) => format!("(list {})", coq_ty(x)?),
        Ty::OptRec => "opt".into(), Ty::FastRec => "gfopt".into(), Ty::StreamRec => "gsopt".into(), Ty::FBRec => "gfb".into(), Ty::BType => "btype".into(), Ty::Bytes | Ty::Str => "bytes".into(), Ty::Byte => "byte".into(),
        Ty::Pair(a, b) => format!("({} * {})%type", coq_ty(a)?, coq_ty(b)?), Ty::Other => return None,
    })
}

fn mut_vec_arg(f: &str) -> Option<usize> {
    match f { "compress_delimiter" => Some(2), "fill_with_fields_locations" | "fill_with_fields_locations_greedy" | "fill_with_fields_locations_using_regex" => Some(0), _ => None }
}

fn flatten_tokens(t: proc_macro2::TokenTree) -> Vec<String> {
    match t {
        proc_macro2::TokenTree::Group(g) => g.stream().into_iter().flat_map(flatten_tokens).collect(),
        proc_macro2::TokenTree::Punct(p) if p.spacing() == proc_macro2::Spacing::Joint => vec![format!("{}~", p.as_char())],
        other => vec![other.to_string()],
    }
}

fn ident(s: &str) -> String {
    let s = s.trim_start_matches("r#");
    if KEYWORDS.contains(&s) { format!("{}_", s) } else { s.to_string() }
}

fn path_str(p: &Path) -> String {
    p.segments.iter().map(|s| s.ident.to_string()).collect::<Vec<_>>().join("::")
}

/// unit constructors / constants
fn unit_ctor(p: &str) -> Option<&'static str> {
    Some(match p {
        "Side::Continue" => "SCont",
        "None" => "None",
        "Ordering::Less" => "Lt",
        "Ordering::Equal" => "Eq",
        "Ordering::Greater" => "Gt",
        "Trim::Left" => "TLeft",
        "Trim::Right" => "TRight",
        "Trim::Both" => "TBoth",
        "BoundsType::Fields" => "BFields",
        "BoundsType::Bytes" => "BBytes",
        "BoundsType::Characters" => "BChars",
        "BoundsType::Lines" => "BLines",
        "true" => "true",
        "false" => "false",
        _ => return None,
    })
}

/// constructors with one argument: gallina name, argument type
fn ctor1(p: &str) -> Option<(&'static str, Ty)> {
    Some(match p {
        "Side::Some" => ("SSome", Ty::I32),
        "Some" => ("Some", Ty::Other),
        "Ok" => ("Some", Ty::Other),
        "BoundOrFiller::Bound" => ("Bound", Ty::UB),
        "BoundOrFiller::Filler" => ("Filler", Ty::Other),
        _ => return None,
    })
}

fn field(recv: &Ty, name: &str) -> Option<(&'static str, Ty)> {
    if *recv == Ty::FastRec {
        // src/fast_lane.rs: struct FastOpt  ->  Tie/RsOpt.v: Record gfopt
        return Some(match name {
            "delimiter" => ("gf_delim", Ty::Byte),
            "join" => ("gf_join", Ty::Bool),
            "eol" => ("gf_eol", Ty::Byte),
            "bounds" => ("gf_bounds", Ty::Other),
            "only_delimited" => ("gf_only_delimited", Ty::Bool),
            "trim" => ("gf_trim", Ty::Opt(Box::new(Ty::Other))),
            "fallback_oob" => ("gf_fallback", Ty::Opt(Box::new(Ty::Bytes))),
            _ => return None,
        });
    }
    if *recv == Ty::FBRec {
        // src/stream.rs: struct ForwardBounds  ->  Tie/RsOpt.v: Record gfb
        return Some(match name { "list" => ("fb_list", Ty::UBL), "last_bound_idx" => ("fb_last", Ty::Usize), _ => return None });
    }
    if *recv == Ty::StreamRec {
        // src/stream.rs: struct StreamOpt  ->  Tie/RsOpt.v: Record gsopt (ForwardBounds as the list it holds)
        return Some(match name {
            "delimiter" => ("gs_delim", Ty::Byte),
            "replace_delimiter" => ("gs_repl", Ty::Opt(Box::new(Ty::Byte))),
            "join" => ("gs_join", Ty::Bool),
            "eol" => ("gs_eol", Ty::Byte),
            "bounds" => ("gs_bounds", Ty::UBL),
            "fallback_oob" => ("gs_fallback", Ty::Opt(Box::new(Ty::Bytes))),
            _ => return None,
        });
    }
    if *recv == Ty::OptRec {
        // src/options.rs: struct Opt  ->  Model/Opt.v: Record opt
        return Some(match name {
            "delimiter" => ("o_delim", Ty::Bytes),
            "eol" => ("o_eol", Ty::Byte),
            "bounds" => ("o_bounds", Ty::UBL),
            "bounds_type" => ("o_btype", Ty::BType),
            "only_delimited" => ("o_only_delimited", Ty::Bool),
            "greedy_delimiter" => ("o_greedy", Ty::Bool),
            "compress_delimiter" => ("o_compress", Ty::Bool),
            "replace_delimiter" => ("o_replace", Ty::Opt(Box::new(Ty::Bytes))),
            "trim" => ("o_trim", Ty::Opt(Box::new(Ty::Other))),
            "complement" => ("o_complement", Ty::Bool),
            "join" => ("o_join", Ty::Bool),
            "json" => ("o_json", Ty::Bool),
            "fallback_oob" => ("o_fallback", Ty::Opt(Box::new(Ty::Bytes))),
            "regex_bag" => ("o_regex", Ty::Opt(Box::new(Ty::Other))),
            _ => return None,
        });
    }
    Some(match name {
        "l" => ("bl", Ty::Side),
        "r" => ("br", Ty::Side),
        "is_last" => ("blast", Ty::Bool),
        "fallback_oob" => ("bfb", Ty::Other),
        "start" => ("fst", Ty::Usize),
        "end" => ("snd", Ty::Usize),
        "list" => ("items", Ty::List(Box::new(Ty::Other))),
        "last_interesting_field" => ("lif", Ty::Side),
        "normal" => ("rb_normal", Ty::Other),
        "greedy" => ("rb_greedy", Ty::Other),
        _ => return None,
    })
}

fn ty_of_type(t: &Type) -> (String, Ty) {
    if let Some(item) = impl_iter_item(t) { let (c, ty) = ty_of_type(item); return (format!("(list {})", c), Ty::List(Box::new(ty))); }
    match t {
        Type::Reference(r) => ty_of_type(&r.elem),
        Type::Slice(sl) if matches!(&*sl.elem, Type::Path(p) if path_str(&p.path) == "u8") => ("bytes".into(), Ty::Bytes),
        Type::Slice(sl) => { let (c, t) = ty_of_type(&sl.elem); (format!("(list {})", c), Ty::List(Box::new(t))) }
        Type::Path(p) => {
            let seg = match p.path.segments.last() { Some(s) => s, None => return ("UNKNOWN".into(), Ty::Other) };
            let arg0 = || -> (String, Ty) {
                match &seg.arguments {
                    PathArguments::AngleBracketed(a) => match a.args.first() { Some(GenericArgument::Type(t)) => ty_of_type(t), _ => ("UNKNOWN".into(), Ty::Other) },
                    _ => ("UNKNOWN".into(), Ty::Other),
                }
            };
            match seg.ident.to_string().as_str() {
                "i32" => ("Z".into(), Ty::I32),
                "usize" => ("Z".into(), Ty::Usize),
                "bool" => ("bool".into(), Ty::Bool),
                "Side" => ("side".into(), Ty::Side),
                "Ordering" => ("comparison".into(), Ty::Other),
                "UserBounds" => ("ubound".into(), Ty::UB),
                "UserBoundsList" => ("ublist".into(), Ty::UBL),
                "Opt" => ("opt".into(), Ty::OptRec),
                "FastOpt" => ("gfopt".into(), Ty::FastRec),
                "StreamOpt" => ("gsopt".into(), Ty::StreamRec),
                "Trim" => ("trimk".into(), Ty::Trim),
                "Regex" => ("(rx * bool)%type".into(), Ty::Regex),
                "u8" | "char" => ("byte".into(), Ty::Byte),
                "str" | "String" => ("bytes".into(), Ty::Str),
                "BoundOrFiller" => ("bof".into(), Ty::Other),
                "Range" => ("(Z * Z)%type".into(), Ty::Range),
                "Option" | "Result" => { let (c, t) = arg0(); (format!("(option {})", c), Ty::Opt(Box::new(t))) }
                "Cow" => match &seg.arguments {
                    PathArguments::AngleBracketed(a) => a.args.iter().find_map(|g| if let GenericArgument::Type(t) = g { Some(ty_of_type(t)) } else { None }).unwrap_or(("UNKNOWN".into(), Ty::Other)),
                    _ => ("UNKNOWN".into(), Ty::Other) },
                "Vec" => { let (c, t) = arg0(); (format!("(list {})", c), Ty::List(Box::new(t))) }
                other => (format!("UNKNOWN_{}", other), Ty::Other),
            }
        }
        _ => ("UNKNOWN".into(), Ty::Other),
    }
}

impl Cx {
    fn retk(&self) -> String { self.retk_stack.last().cloned().unwrap_or(format!("(fun x : {} => Ret x)", self.ret_ty)) }
    fn muts_tuple(&self) -> String {
        match self.muts.len() { 0 => "tt".into(), 1 => ident(&self.muts[0]), _ => format!("({})", self.muts.iter().map(|m| ident(m)).collect::<Vec<_>>().join(", ")) }
    }
    fn muts_pat(&self) -> String {
        match self.muts.len() { 0 => "_".into(), 1 => ident(&self.muts[0]), _ => format!("'({})", self.muts.iter().map(|m| ident(m)).collect::<Vec<_>>().join(", ")) }
    }
    /// bind a continuation to a name (a join point), or use it as it is when continuations are inlined
    fn join(&mut self, k: &str) -> (String, Option<(String, String)>) {
        if self.inline_k { (k.to_string(), None) } else { let kj = self.fresh("k"); (kj.clone(), Some((kj, k.to_string()))) }
    }
    fn wrap(j: &Option<(String, String)>, body: String) -> String {
        match j { Some((n, v)) => format!("(let {} := {} in {})", n, v, body), None => body }
    }
    fn fresh(&mut self, base: &str) -> String {
        self.fresh += 1;
        format!("{}_{}", base, self.fresh)
    }
    fn coqname(&self, v: &str) -> String {
        for (i, r, c) in self.renames.iter().rev() {
            if r == v && *i < self.env.len() && self.env[*i].0 == v {
                // the innermost live binding of v must be this one
                if self.env.iter().rposition(|(n, _)| n == v) == Some(*i) { return c.clone(); }
            }
        }
        ident(v)
    }
    /// does the closure assign to one of the `let mut` variables in scope?
    fn closure_assigns(&self, e: &Expr) -> bool {
        let toks: Vec<String> = quote::ToTokens::to_token_stream(e).into_iter().flat_map(flatten_tokens).collect();
        toks.windows(2).any(|w| self.muts.contains(&w[0]) && (w[1] == "=" || w[1] == "+~" || w[1] == "-~"))
    }
    /// turn the translation of `rest` (the statements after a top-level one) into a stage definition
    fn stage(&mut self, rest: &[Stmt], rest_s: String, env_len: usize) -> String {
        let (prefix, start, end, total) = match &self.stage_top { Some(x) => x.clone(), None => return rest_s };
        let r = rest.as_ptr_range();
        if rest.is_empty() || (r.end as usize) != end || (r.start as usize) < start { return rest_s; }
        let idx = total - rest.len();
        let mut names: Vec<String> = vec![];
        let mut binders: Vec<String> = vec![];
        for i in 0..env_len.min(self.env.len()) {
            let n = &self.env[i].0;
            let c = self.renames.iter().find(|(ri, rn, _)| *ri == i && rn == n).map(|(_, _, c)| c.clone()).unwrap_or_else(|| ident(n));
            if names.contains(&c) { continue; }
            // does the name occur in the text as a whole word?
            let bytes = rest_s.as_bytes();
            let mut found = false; let mut from = 0;
            while let Some(pos) = rest_s[from..].find(&c) {
                let a = from + pos; let b = a + c.len();
                let okl = a == 0 || !(bytes[a - 1].is_ascii_alphanumeric() || bytes[a - 1] == b'_' || bytes[a - 1] == b'\'');
                let okr = b >= bytes.len() || !(bytes[b].is_ascii_alphanumeric() || bytes[b] == b'_' || bytes[b] == b'\'');
                if okl && okr { found = true; break; }
                from = a + 1;
            }
            if found { names.push(c.clone()); binders.push(match coq_ty(&self.env[i].1) { Some(t) => format!("({} : {})", c, t), None => c }); }
        }
        let name = format!("{}_s{}", prefix, idx);
        self.stages.push(format!("Definition {} {} :=\n  {}.\n", name, binders.join(" "), rest_s));
        format!("({} {})", name, names.join(" "))
    }
    fn lookup(&self, v: &str) -> Option<Ty> {
        self.env.iter().rev().find(|(n, _)| n == v).map(|(_, t)| t.clone())
    }

    // ---------------------------------------------------------------- types (a light inference)
    fn ty(&self, e: &Expr) -> Ty {
        match e {
            Expr::Lit(l) => match &l.lit { Lit::ByteStr(_) => Ty::Bytes, Lit::Bool(_) => Ty::Bool, Lit::Int(i) => match i.suffix() { "usize" => Ty::Usize, _ => Ty::I32 }, Lit::Str(_) => Ty::Str, _ => Ty::Other },
            Expr::Index(ix) if matches!(&*ix.index, Expr::Range(_)) => self.ty(&ix.expr),
            Expr::Index(ix) => match self.ty(&ix.expr) { Ty::List(t) => *t, Ty::Bytes => Ty::Byte, _ => Ty::Other },
            Expr::Path(p) if path_str(&p.path).starts_with("BoundsType::") => Ty::BType,
            Expr::Path(p) if path_str(&p.path).starts_with("Side::") => Ty::Side,
            Expr::Path(p) if path_str(&p.path).starts_with("Trim::") => Ty::Trim,
            Expr::Call(c) if matches!(&*c.func, Expr::Path(p) if path_str(&p.path) == "Side::Some") => Ty::Side,
            Expr::Match(m) if !m.arms.is_empty() => { let t = self.ty(&m.arms[0].body); if t == Ty::Other && m.arms.len() > 1 { self.ty(&m.arms[1].body) } else { t } }
            Expr::Path(p) => { let s = path_str(&p.path); self.lookup(&s).unwrap_or(if unit_ctor(&s).map_or(false, |c| c == "true" || c == "false") { Ty::Bool } else { Ty::Other }) }
            Expr::Paren(p) => self.ty(&p.expr),
            Expr::Reference(r) => self.ty(&r.expr),
            Expr::Unary(u) => match u.op { UnOp::Not(_) => Ty::Bool, _ => self.ty(&u.expr) },
            Expr::Cast(c) => ty_of_type(&c.ty).1,
            Expr::Field(f) => match &f.member { Member::Named(n) => field(&self.ty(&f.base), &n.to_string()).map_or(Ty::Other, |x| x.1), _ => Ty::Other },
            Expr::Try(t) => match self.ty(&t.expr) { Ty::Opt(t) => *t, _ => Ty::Other },
            Expr::MethodCall(m) => match m.method.to_string().as_str() {
                "is_positive" | "is_negative" | "is_some" | "is_none" => Ty::Bool,
                "clone" | "into_iter" | "iter" | "as_bytes" | "as_ref" | "to_owned" | "as_deref" | "cloned" | "rev" | "as_slice" => self.ty(&m.receiver),
                "enumerate" => Ty::List(Box::new(Ty::Pair(Box::new(Ty::Usize), Box::new(match self.ty(&m.receiver) { Ty::List(t) => *t, _ => Ty::Other })))),
                "len" => Ty::Usize,
                "strip_suffix" => Ty::Opt(Box::new(self.ty(&m.receiver))),
                "split_once" => Ty::Opt(Box::new(Ty::Pair(Box::new(Ty::Str), Box::new(Ty::Str)))),
                "find_iter" if self.ty(&m.receiver) == Ty::Regex => Ty::List(Box::new(Ty::Range)),
                "find_iter" => Ty::List(Box::new(Ty::Usize)),
                "get" if self.ty(&m.receiver) == Ty::UBL => Ty::Opt(Box::new(Ty::Other)),
                "next" | "last" => match self.ty(&m.receiver) { Ty::List(t) => Ty::Opt(t), _ => Ty::Other },
                "or" => self.ty(&m.receiver),
                "start" | "end" if self.ty(&m.receiver) == Ty::Range => Ty::Usize,
                "starts_with" | "ends_with" => Ty::Bool,
                "find" => Ty::Opt(Box::new(Ty::Usize)),
                "is_empty" => Ty::Bool,
                "into" | "or_else" => self.ty(&m.receiver),
                "is_ok" | "is_err" => Ty::Bool,
                "parse" => Ty::Opt(Box::new(Ty::I32)),
                "first" => Ty::Opt(Box::new(Ty::Other)),
                "unwrap" | "expect" => match self.ty(&m.receiver) { Ty::Opt(t) => *t, _ => Ty::Other },
                name => self.call_ty.get(name).cloned().unwrap_or(Ty::Other),
            },
            Expr::Call(c) if matches!(&*c.func, Expr::Path(p) if path_str(&p.path) == "memchr::memchr_iter") => Ty::List(Box::new(Ty::Usize)),
            Expr::Call(c) if matches!(&*c.func, Expr::Path(p) if path_str(&p.path) == "String::with_capacity" || path_str(&p.path) == "String::new") => Ty::Str,
            Expr::Call(c) if matches!(&*c.func, Expr::Path(p) if path_str(&p.path) == "read_line_with_eol") => Ty::Opt(Box::new(Ty::Opt(Box::new(Ty::Str)))),
            Expr::Call(c) => match &*c.func {
                Expr::Path(p) if (path_str(&p.path) == "Some" || path_str(&p.path) == "Ok") && c.args.len() == 1 => Ty::Opt(Box::new(self.ty(&c.args[0]))),
                Expr::Path(p) if path_str(&p.path).ends_with("str::from_utf8") => Ty::Opt(Box::new(Ty::Str)),
                Expr::Path(p) => self.call_ty.get(&path_str(&p.path)).cloned().unwrap_or(Ty::Other),
                _ => Ty::Other },
            Expr::Binary(b) => match b.op {
                BinOp::Add(_) | BinOp::Sub(_) | BinOp::Mul(_) => { let l = self.ty(&b.left); if l == Ty::Other { self.ty(&b.right) } else { l } }
                _ => Ty::Bool,
            },
            _ => Ty::Other,
        }
    }
    fn int_ty(&self, a: &Expr, b: &Expr) -> Ty {
        // literals adapt to the other operand
        let lit = |e: &Expr| matches!(e, Expr::Lit(ExprLit { lit: Lit::Int(i), .. }) if i.suffix().is_empty());
        // an integer variable whose width is not known yet behaves as an untyped operand
        let norm = |t: Ty| if t == Ty::Int { Ty::Other } else { t };
        let (ta, tb) = (norm(self.ty(a)), norm(self.ty(b)));
        if lit(a) && !lit(b) { return if tb == Ty::Other { Ty::I32 } else { tb }; }
        if lit(b) && !lit(a) { return if ta == Ty::Other { Ty::I32 } else { ta }; }
        if ta == Ty::Other { tb } else { ta }
    }

    // ---------------------------------------------------------------- pure expressions
    fn pure(&mut self, e: &Expr) -> R<Option<String>> {
        Ok(Some(match e {
            Expr::Lit(l) => match &l.lit {
                Lit::Int(i) => format!("{}", i.base10_digits()),
                Lit::Bool(b) => format!("{}", b.value),
                Lit::Char(c) if c.value().is_ascii() => format!("{}%N", c.value() as u32),
                Lit::ByteStr(t) => format!("[{}]", t.value().iter().map(|b| format!("{}%N", b)).collect::<Vec<_>>().join("; ")),
                Lit::Str(t) if t.value().is_ascii() => format!("[{}]", t.value().bytes().map(|b| format!("{}%N", b)).collect::<Vec<_>>().join("; ")),
                _ => return Err("literal kind".into()),
            },
            Expr::Path(p) => {
                let s = path_str(&p.path);
                if self.lookup(&s).is_some() { self.coqname(&s) }
                else if let Some(c) = unit_ctor(&s) { c.to_string() }
                else if s == "self" { "self".into() }
                else { return Err(format!("unknown name `{}`", s)); }
            }
            Expr::Paren(p) => return self.pure(&p.expr),
            Expr::Group(p) => return self.pure(&p.expr),
            Expr::Reference(r) => return self.pure(&r.expr),
            Expr::Unary(u) => match u.op {
                UnOp::Deref(_) => return self.pure(&u.expr),
                UnOp::Not(_) => match self.pure(&u.expr)? { Some(x) => format!("(negb {})", x), None => return Ok(None) },
                UnOp::Neg(_) => match &*u.expr {
                    Expr::Lit(ExprLit { lit: Lit::Int(i), .. }) => format!("(-{})", i.base10_digits()),
                    _ => return Ok(None),
                },
                _ => return Err("unary operator".into()),
            },
            Expr::Field(f) => {
                let base = match self.pure(&f.base)? { Some(b) => b, None => return Ok(None) };
                match &f.member {
                    Member::Named(n) => match field(&self.ty(&f.base), &n.to_string()) { Some((g, _)) => format!("({} {})", g, base), None => return Err(format!("field `{}`", n)) },
                    _ => return Err("tuple field".into()),
                }
            }
            Expr::Cast(c) => {
                let inner = match self.pure(&c.expr)? { Some(b) => b, None => return Ok(None) };
                let from = self.ty(&c.expr);
                let to = ty_of_type(&c.ty).1;
                match (&from, &to) {
                    (Ty::I32, Ty::I32) | (Ty::Usize, Ty::Usize) | (Ty::Byte, Ty::Byte) => inner,
                    (Ty::Usize, Ty::I32) => format!("(cast_i32 {})", inner),
                    (Ty::I32, Ty::Usize) => format!("(cast_usize {})", inner),
                    _ => return Err(format!("cast {:?} -> {:?}", from, to)),
                }
            }
            Expr::Binary(b) => {
                let arith = matches!(b.op, BinOp::Add(_) | BinOp::Sub(_) | BinOp::Mul(_) | BinOp::AddAssign(_) | BinOp::SubAssign(_));
                if arith { return Ok(None); }
                if matches!(b.op, BinOp::Le(_) | BinOp::Lt(_) | BinOp::Ge(_) | BinOp::Gt(_)) && matches!(self.int_ty(&b.left, &b.right), Ty::Opt(_)) { return Ok(None); }
                let l = match self.pure(&b.left)? { Some(x) => x, None => return Ok(None) };
                let r = match self.pure(&b.right)? { Some(x) => x, None => return Ok(None) };
                self.binop_pure(&b.op, &b.left, &b.right, &l, &r)?
            }
            Expr::MethodCall(m) => {
                let name = m.method.to_string();
                if self.calls.contains_key(&name) { return Ok(None); }
                if name == "or_else" {
                    // r.or_else(|_| bail!(..)): only the error value changes, and errors carry no data here
                    if m.args.len() != 1 { return Err("or_else arity".into()); }
                    closure_is_harmless_bail(&m.args[0])?;
                    return self.pure(&m.receiver);
                }
                if name == "into" && matches!(self.ty(&m.receiver), Ty::Str | Ty::Byte) { return self.pure(&m.receiver); }
                if ["expect", "unwrap", "collect", "map", "try_into", "into", "for_each", "any", "flat_map", "try_for_each", "write_all", "push", "clear", "extend", "next", "pop", "drain"].contains(&name.as_str()) { return Ok(None); }
                let recv = match self.pure(&m.receiver)? { Some(x) => x, None => return Ok(None) };
                let mut args = vec![];
                for a in &m.args { match self.pure(a)? { Some(x) => args.push(x), None => return Ok(None) } }
                match (name.as_str(), args.len()) {
                    ("is_positive", 0) => format!("(0 <? {})", recv),
                    ("is_negative", 0) => format!("({} <? 0)", recv),
                    ("cmp", 1) => format!("(i32_cmp {} {})", recv, args[0]),
                    ("clone", 0) | ("into_iter", 0) | ("iter", 0) | ("as_bytes", 0) | ("as_ref", 0) | ("to_owned", 0) | ("as_deref", 0) | ("cloned", 0) => recv,
                    ("get", 1) if self.ty(&m.receiver) == Ty::UBL => format!("(nth_error (items {}) (Z.to_nat {}))", recv, args[0]),
                    ("enumerate", 0) => format!("(enumerate_z (to_list {}))", recv),
                    ("rev", 0) => format!("(List.rev {})", recv),
                    ("len", 0) if self.ty(&m.receiver) == Ty::UBL => format!("(Z.of_nat (length (items {})))", recv),
                    ("len", 0) => format!("(Z.of_nat (length {}))", recv),
                    ("is_empty", 0) if self.ty(&m.receiver) == Ty::UBL => format!("(match (items {}) with [] => true | _ => false end)", recv),
                    ("is_empty", 0) => format!("(match {} with [] => true | _ => false end)", recv),
                    ("find_iter", 1) if self.ty(&m.receiver) == Ty::Regex => format!("(rx_find_iter_z {} {})", recv, args[0]),
                    ("find_iter", 1) => format!("(find_iter_z {} {})", args[0], recv),
                    ("last", 0) if matches!(self.ty(&m.receiver), Ty::List(_)) => format!("(last_error {})", recv),
                    ("or", 1) => format!("(match {} with Some v_ => Some v_ | None => {} end)", recv, args[0]),
                    ("start", 0) if self.ty(&m.receiver) == Ty::Range => format!("(fst {})", recv),
                    ("end", 0) if self.ty(&m.receiver) == Ty::Range => format!("(snd {})", recv),
                    ("starts_with", 1) => format!("(starts_with {} {})", args[0], recv),
                    ("ends_with", 1) => format!("(ends_with {} {})", args[0], recv),
                    ("as_slice", 0) => recv,
                    ("split_once", 1) => format!("(str_split_once {} {})", args[0], recv),
                    ("find", 1) => format!("(str_find {} {})", args[0], recv),
                    ("into", 0) if self.ty(&m.receiver) == Ty::Str => recv,
                    ("or_else", 1) => recv,
                    ("parse", 0) => {
                        let is_i32 = m.turbofish.as_ref().map_or(false, |t| t.args.iter().any(|a| matches!(a, GenericArgument::Type(Type::Path(p)) if path_str(&p.path) == "i32")));
                        if !is_i32 { return Err("parse::<T>() for a T other than i32".into()); }
                        format!("(parse_i32 {})", recv)
                    }
                    ("first", 0) => format!("(hd_error {})", recv),
                    ("strip_suffix", 1) if matches!(self.ty(&m.receiver), Ty::Str | Ty::Bytes) && self.ty(&m.args[0]) == Ty::Byte => format!("(strip_suffix_byte {} {})", args[0], recv),
                    ("replace", 2) if matches!(self.ty(&m.receiver), Ty::Bytes | Ty::Str) => format!("(bytes_replace {} {} {})", args[0], args[1], recv),
                    ("unwrap_or", 1) => format!("(match {} with Some v_ => v_ | None => {} end)", recv, args[0]),
                    ("is_none", 0) | ("is_err", 0) => format!("(match {} with None => true | _ => false end)", recv),
                    ("is_ok", 0) => format!("(match {} with None => false | _ => true end)", recv),
                    ("into", 0) if self.ty(&m.receiver) == Ty::Byte => recv,
                    ("is_some", 0) => format!("(match {} with None => false | _ => true end)", recv),
                    _ => return Err(format!("method `{}`", name)),
                }
            }
            Expr::Call(c) => {
                let f = match &*c.func { Expr::Path(p) => path_str(&p.path), _ => return Err("call of a non-path".into()) };
                if self.calls.contains_key(&f) { return Ok(None); }
                if f == "Err" { return Ok(Some("None".to_string())); }
                if f == "Vec::with_capacity" { return Ok(Some("[]".to_string())); }
                if f == "read_bytes_to_end" || f == "read_line_with_eol" { return Ok(None); }
                if f == "String::with_capacity" || f == "String::new" { return Ok(Some("([] : bytes)".to_string())); }
                let mut args = vec![];
                for a in &c.args { match self.pure(a)? { Some(x) => args.push(x), None => return Ok(None) } }
                if f == "Err" { "None".to_string() }
                else if (f.ends_with("Cow::Borrowed") || f.ends_with("Cow::Owned") || f.ends_with("NoExpand")) && args.len() == 1 { args[0].clone() }
                else if f == "Vec::new" && args.is_empty() { "[]".to_string() }
                else if f.ends_with("str::from_utf8") && args.len() == 1 { format!("(from_utf8 {})", args[0]) }
                else if f == "memchr::memchr_iter" && args.len() == 2 { format!("(memchr_iter {} {})", args[0], args[1]) }
                else if let Some((g, _)) = ctor1(&f) { if args.len() != 1 { return Err("constructor arity".into()); } format!("({} {})", g, args[0]) }
                else { return Err(format!("call of `{}`", f)); }
            }
            Expr::Tuple(t) => {
                let mut xs = vec![];
                for a in &t.elems { match self.pure(a)? { Some(x) => xs.push(x), None => return Ok(None) } }
                if xs.is_empty() { "tt".into() } else { format!("({})", xs.join(", ")) }
            }
            Expr::Array(t) => {
                let mut xs = vec![];
                for a in &t.elems { match self.pure(a)? { Some(x) => xs.push(x), None => return Ok(None) } }
                format!("[{}]", xs.join("; "))
            }
            Expr::Struct(s) if struct_ctor(&path_str(&s.path)).is_some() => return Ok(None),
            Expr::Struct(s) if path_str(&s.path) == "UserBounds" => {
                let mut vals: HashMap<String, String> = HashMap::new();
                for f in &s.fields {
                    let v = match self.pure(&f.expr)? { Some(x) => x, None => return Ok(None) };
                    match &f.member { Member::Named(n) => { vals.insert(n.to_string(), v); } _ => return Err("UserBounds field".into()) }
                }
                if s.rest.is_some() || vals.len() != 4 { return Err("UserBounds literal must give its four fields".into()); }
                let g = |k: &str| vals.get(k).cloned().ok_or(format!("UserBounds.{}", k));
                format!("(mkB {} {} {} {})", g("l")?, g("r")?, g("is_last")?, g("fallback_oob")?)
            }
            Expr::Struct(s) => {
                if path_str(&s.path) != "Range" { return Err(format!("struct literal `{}`", path_str(&s.path))); }
                let mut st = None; let mut en = None;
                for f in &s.fields {
                    let v = match self.pure(&f.expr)? { Some(x) => x, None => return Ok(None) };
                    match &f.member { Member::Named(n) if n == "start" => st = Some(v), Member::Named(n) if n == "end" => en = Some(v), _ => return Err("Range field".into()) }
                }
                format!("({}, {})", st.ok_or("Range.start")?, en.ok_or("Range.end")?)
            }
            Expr::Range(r) => {
                let a = match r.start.as_ref() { Some(x) => match self.pure(x)? { Some(v) => v, None => return Ok(None) }, None => return Err("open range".into()) };
                let b = match r.end.as_ref() { Some(x) => match self.pure(x)? { Some(v) => v, None => return Ok(None) }, None => return Err("open range".into()) };
                if !matches!(r.limits, RangeLimits::HalfOpen(_)) { return Err("inclusive range".into()); }
                format!("({}, {})", a, b)
            }
            Expr::Macro(m) => {
                let name = path_str(&m.mac.path);
                if name == "vec" {
                    let parser = punctuated::Punctuated::<Expr, Token![,]>::parse_terminated;
                    let elems = m.mac.parse_body_with(parser).map_err(|e| format!("vec! body: {}", e))?;
                    let mut xs = vec![];
                    for a in &elems { match self.pure(a)? { Some(x) => xs.push(x), None => return Ok(None) } }
                    format!("[{}]", xs.join("; "))
                } else if name == "cfg" {
                    // cfg!(feature = ".."): the default build, which is the one under verification, has its features on
                    "true".to_string()
                } else if name == "matches" {
                    let (e, pt, guard) = m.mac.parse_body_with(|input: parse::ParseStream| {
                        let e: Expr = input.parse()?;
                        input.parse::<Token![,]>()?;
                        let p = Pat::parse_multi_with_leading_vert(input)?;
                        let g: Option<Expr> = if input.peek(Token![if]) { input.parse::<Token![if]>()?; Some(input.parse()?) } else { None };
                        if input.peek(Token![,]) { input.parse::<Token![,]>()?; }
                        if !input.is_empty() { return Err(input.error("matches! with something after its pattern")); }
                        Ok((e, p, g))
                    }).map_err(|e| format!("matches!: {}", e))?;
                    let ev = match self.pure(&e)? { Some(v) => v, None => return Err("matches! on an effectful expression".into()) };
                    let mark = self.env.len();
                    self.tuple_hint = vec![];
                    let hint = self.ty(&e);
                    let (ps, irr) = self.pat(&pt, hint)?;
                    let gs = match &guard { Some(g) => Some(self.pure(g)?.ok_or("matches! with a guard that is not a plain expression")?), None => None };
                    self.env.truncate(mark);
                    match gs {
                        Some(g) if irr => format!("(let {} := {} in {})", ps, ev, g),
                        Some(g) => format!("(match {} with {} => {} | _ => false end)", ev, ps, g),
                        None => if irr { "true".to_string() } else { format!("(match {} with {} => true | _ => false end)", ev, ps) },
                    }
                } else { return Ok(None); }
            }
            Expr::If(_) | Expr::Match(_) | Expr::Block(_) | Expr::Return(_) | Expr::Try(_) | Expr::Assign(_) | Expr::ForLoop(_) | Expr::Closure(_) | Expr::Index(_) | Expr::Break(_) | Expr::Continue(_) | Expr::While(_) => return Ok(None),
            other => return Err(format!("expression kind at line {}", other.span().start().line)),
        }))
    }

    fn binop_pure(&self, op: &BinOp, le: &Expr, re: &Expr, l: &str, r: &str) -> R<String> {
        let t = self.int_ty(le, re);
        let intlike = matches!(t, Ty::I32 | Ty::Usize);
        Ok(match op {
            BinOp::And(_) => format!("(andb {} {})", l, r),
            BinOp::Or(_) => format!("(orb {} {})", l, r),
            BinOp::Lt(_) if intlike => format!("({} <? {})", l, r),
            BinOp::Le(_) if intlike => format!("({} <=? {})", l, r),
            BinOp::Gt(_) if intlike => format!("({} <? {})", r, l),
            BinOp::Ge(_) if intlike => format!("({} <=? {})", r, l),
            BinOp::Eq(_) if intlike => format!("({} =? {})", l, r),
            BinOp::Ne(_) if intlike => format!("(negb ({} =? {}))", l, r),
            BinOp::Eq(_) if t == Ty::Bool => format!("(Bool.eqb {} {})", l, r),
            BinOp::Ne(_) if t == Ty::Bool => format!("(xorb {} {})", l, r),
            BinOp::Eq(_) if t == Ty::Str => format!("(bytes_eqb {} {})", l, r),
            BinOp::Ne(_) if t == Ty::Str => format!("(negb (bytes_eqb {} {}))", l, r),
            BinOp::Eq(_) if t == Ty::BType => format!("(btype_eqb {} {})", l, r),
            BinOp::Ne(_) if t == Ty::BType => format!("(negb (btype_eqb {} {}))", l, r),
            BinOp::Eq(_) if t == Ty::Trim => format!("(trimk_eqb {} {})", l, r),
            BinOp::Ne(_) if t == Ty::Trim => format!("(negb (trimk_eqb {} {}))", l, r),
            BinOp::Eq(_) if t == Ty::Side => format!("(side_eqb {} {})", l, r),
            BinOp::Ne(_) if t == Ty::Side => format!("(negb (side_eqb {} {}))", l, r),
            _ => return Err(format!("operator on operands of type {:?}", t)),
        })
    }

    // ---------------------------------------------------------------- patterns
    /// returns (gallina pattern, irrefutable?) and pushes the bound variables into the environment
    fn pat(&mut self, p: &Pat, hint: Ty) -> R<(String, bool)> {
        Ok(match p {
            Pat::Wild(_) => ("_".into(), true),
            Pat::Ident(i) => {
                let n = i.ident.to_string();
                if let Some(c) = unit_ctor(&n) { (c.to_string(), false) }
                else {
                    let len = self.env.len();
                    self.renames.retain(|r| r.0 < len);
                    if self.inline_k && self.lookup(&n).is_some() && !self.rebind_ok {
                        if i.mutability.is_some() || self.muts.contains(&n) { return Err(format!("`{}` shadows or is a mutable variable bound twice", n)); }
                        let c = self.fresh(&ident(&n));
                        self.renames.push((len, n.clone(), c.clone()));
                        self.env.push((n.clone(), hint.clone()));
                        return Ok((c, true));
                    }
                    if i.mutability.is_some() { self.muts.push(n.clone()); }
                    self.env.push((n.clone(), hint.clone())); (ident(&n), true)
                }
            }
            Pat::Reference(r) => return self.pat(&r.pat, hint.clone()),
            Pat::Paren(r) => return self.pat(&r.pat, hint.clone()),
            Pat::Type(t) => { let ty = ty_of_type(&t.ty).1; return self.pat(&t.pat, ty); }
            Pat::Tuple(t) => {
                let mut xs = vec![]; let mut irr = true;
                for (k, e) in t.elems.iter().enumerate() {
                    let h = match &hint {
                        Ty::Pair(a, b) => if k == 0 { (**a).clone() } else { (**b).clone() },
                        Ty::Other => self.tuple_hint.get(k).cloned().unwrap_or(Ty::Other),
                        h => h.clone() };
                    let (s, i) = self.pat(e, h)?; xs.push(s); irr &= i;
                }
                (format!("({})", xs.join(", ")), irr)
            }
            Pat::TupleStruct(ts) => {
                let c = path_str(&ts.path);
                if c == "Err" { return Ok(("None".into(), false)); }
                let (g, aty) = ctor1(&c).ok_or(format!("pattern constructor `{}`", c))?;
                if ts.elems.len() != 1 { return Err("pattern arity".into()); }
                let aty = match (&aty, &hint) { (Ty::Other, Ty::Opt(t)) => (**t).clone(), _ => aty };
                let (s, _) = self.pat(&ts.elems[0], aty)?;
                (format!("({} {})", g, s), false)
            }
            Pat::Struct(ps) if path_str(&ps.path) == "UserBounds" => {
                let mut parts: HashMap<String, String> = HashMap::new();
                for f in &ps.fields {
                    let n = match &f.member { Member::Named(n) => n.to_string(), _ => return Err("UserBounds pattern".into()) };
                    let h = match n.as_str() { "l" | "r" => Ty::Side, "is_last" => Ty::Bool, _ => Ty::Other };
                    let (sp, _) = self.pat(&f.pat, h)?;
                    parts.insert(n, sp);
                }
                let g = |k: &str| parts.get(k).cloned().unwrap_or("_".to_string());
                (format!("(mkB {} {} {} {})", g("l"), g("r"), g("is_last"), g("fallback_oob")), parts.values().all(|v| v == "_" || !v.contains(' ')))
            }
            Pat::Path(pp) => { let c = path_str(&pp.path); (unit_ctor(&c).ok_or(format!("pattern `{}`", c))?.to_string(), false) }
            Pat::Lit(l) => match &l.lit {
                Lit::Int(i) => (i.base10_digits().to_string(), false),
                Lit::Bool(b) => (format!("{}", b.value), false),
                Lit::Str(t) if t.value().is_empty() => ("[]".to_string(), false),
                _ => return Err("literal pattern".into()) },
            _ => return Err(format!("pattern kind at line {}", p.span().start().line)),
        })
    }

    // ---------------------------------------------------------------- effectful expressions, CPS
    /// gallina term of type `rs T` that evaluates `e` and hands its value to `k` (a gallina function)
    fn tr(&mut self, e: &Expr, k: &str) -> R<String> {
        if let Some(p) = self.pure(e)? { return Ok(format!("({} {})", k, p)); }
        match e {
            Expr::Paren(p) => self.tr(&p.expr, k),
            Expr::Group(p) => self.tr(&p.expr, k),
            Expr::Reference(r) => self.tr(&r.expr, k),
            Expr::Block(b) => { let mark = self.env.len(); let mm = self.muts.len(); let r = self.stmts(&b.block.stmts, k); self.env.truncate(mark); self.muts.truncate(mm); r }
            Expr::Unary(u) => {
                let x = self.fresh("t");
                let inner = match u.op {
                    UnOp::Deref(_) => return self.tr(&u.expr, k),
                    UnOp::Not(_) => format!("({} (negb {}))", k, x),
                    UnOp::Neg(_) => { let f = match self.ty(&u.expr) { Ty::Usize => return Err("negation of usize".into()), _ => "i32_neg" }; format!("(bind ({} {}) {})", f, x, k) }
                    _ => return Err("unary operator".into()),
                };
                self.tr(&u.expr, &format!("(fun {} => {})", x, inner))
            }
            Expr::Cast(c) => {
                let x = self.fresh("t");
                self.env.push((x.clone(), self.ty(&c.expr)));
                let fake: Expr = parse_str(&format!("{} as {}", x, quote_type(&c.ty))).map_err(|e| e.to_string())?;
                let body = self.pure(&fake)?.ok_or("cast")?;
                self.env.pop();
                self.tr(&c.expr, &format!("(fun {} => ({} {}))", x, k, body))
            }
            Expr::Binary(b) if !matches!(b.op, BinOp::AddAssign(_) | BinOp::SubAssign(_)) => {
                let t = self.int_ty(&b.left, &b.right);
                match b.op {
                    BinOp::Add(_) | BinOp::Sub(_) | BinOp::Mul(_) => {
                        let pre = match t { Ty::Usize => "usize", Ty::I32 => "i32", _ => return Err("arithmetic on a non-integer".into()) };
                        let opn = match b.op { BinOp::Add(_) => "add", BinOp::Sub(_) => "sub", _ => "mul" };
                        let (x, y) = (self.fresh("t"), self.fresh("t"));
                        let inner = self.tr(&b.right, &format!("(fun {} => (bind ({}_{} {} {}) {}))", y, pre, opn, x, y, k))?;
                        self.tr(&b.left, &format!("(fun {} => {})", x, inner))
                    }
                    BinOp::Or(_) | BinOp::And(_) => {
                        // short circuit: the right operand is evaluated only when the left one does not decide
                        let (kj, jn) = self.join(k);
                        let x = self.fresh("t");
                        let rhs = self.tr(&b.right, &kj)?;
                        let body = if matches!(b.op, BinOp::Or(_)) { format!("(if {} then ({} true) else {})", x, kj, rhs) }
                                   else { format!("(if {} then {} else ({} false))", x, rhs, kj) };
                        let lhs = self.tr(&b.left, &format!("(fun {} : bool => {})", x, body))?;
                        Ok(Self::wrap(&jn, lhs))
                    }
                    BinOp::Le(_) if matches!(&t, Ty::Opt(i) if **i == Ty::UB) => {
                        // Option<&UserBounds> <= Option<&UserBounds>: None is below everything, Some compares through partial_cmp
                        let g = self.calls.get("<=UserBounds").cloned().ok_or("comparison of bounds without a translated partial_cmp")?;
                        let (x, y) = (self.fresh("t"), self.fresh("t"));
                        let inner = self.tr(&b.right, &format!("(fun {} => (bind (opt_le_with {} {} {}) {}))", y, g, x, y, k))?;
                        self.tr(&b.left, &format!("(fun {} => {})", x, inner))
                    }
                    _ => {
                        let (x, y) = (self.fresh("t"), self.fresh("t"));
                        // comparison of two evaluated operands: rebuild it over the fresh names
                        self.env.push((x.clone(), self.ty(&b.left))); self.env.push((y.clone(), self.ty(&b.right)));
                        let lx: Expr = parse_str(&x).unwrap(); let ry: Expr = parse_str(&y).unwrap();
                        let cmp = self.binop_pure(&b.op, &lx, &ry, &x, &y);
                        self.env.pop(); self.env.pop();
                        let cmp = cmp?;
                        let inner = self.tr(&b.right, &format!("(fun {} => ({} {}))", y, k, cmp))?;
                        self.tr(&b.left, &format!("(fun {} => {})", x, inner))
                    }
                }
            }
            Expr::If(i) => {
                if let Expr::Let(l) = &*i.cond {
                    // if let PAT = e { A } else { B }  ==  match e { PAT => A, _ => B }
                    let (kj, jn) = self.join(k);
                    let sc = self.fresh("s");
                    let mark = self.env.len(); let mmark = self.muts.len();
                    self.tuple_hint = vec![];
                    let hint = self.ty(&l.expr);
                    let (p, irrefutable) = self.pat(&l.pat, hint)?;
                    let th = self.stmts(&i.then_branch.stmts, &kj)?;
                    self.env.truncate(mark); self.muts.truncate(mmark);
                    let el = match &i.else_branch { Some((_, e)) => self.tr(e, &kj)?, None => format!("({} tt)", kj) };
                    self.env.truncate(mark); self.muts.truncate(mmark);
                    let body = if irrefutable { format!("(let {}{} := {} in {})", if p.starts_with('(') { "'" } else { "" }, p, sc, th) }
                               else { format!("(match {} with | {} => {} | _ => {} end)", sc, p, th, el) };
                    let r = self.tr(&l.expr, &format!("(fun {} => {})", sc, body))?;
                    return Ok(Self::wrap(&jn, r));
                }
                let (kj, jn) = self.join(k);
                let c = self.fresh("c");
                let mark = self.env.len();
                let th = self.stmts(&i.then_branch.stmts, &kj)?;
                self.env.truncate(mark);
                let el = match &i.else_branch { Some((_, e)) => self.tr(e, &kj)?, None => format!("({} tt)", kj) };
                self.env.truncate(mark);
                let cond = self.tr(&i.cond, &format!("(fun {} : bool => (if {} then {} else {}))", c, c, th, el))?;
                Ok(Self::wrap(&jn, cond))
            }
            Expr::While(w) => {
                // while COND { BODY }: the mutable variables are the state; bounded by the target's fuel term
                if self.fuel.is_empty() { return Err("while loop in a function without a fuel term".into()); }
                if let Expr::Let(l) = &*w.cond {
                    // while let PAT = E { BODY }  ==  loop { match E { PAT => BODY, _ => break } }
                    let st_pat = self.muts_pat(); let st_tup = self.muts_tuple();
                    let outer_ret = self.retk();
                    let saved_ret_ty = std::mem::replace(&mut self.ret_ty, "_".to_string()); self.retk_stack.push("(fun x => Ret (Break x))".into());
                    self.loop_state.push(st_tup.clone());
                    let mark = self.env.len(); let mmark = self.muts.len();
                    self.tuple_hint = vec![];
                    let hint = self.ty(&l.expr);
                    let res: R<String> = (|| {
                        let (p, _) = self.pat(&l.pat, hint)?;
                        let body = self.stmts(&w.body.stmts, "(fun _ => Ret (Next LOOPSTATE))")?;
                        let sc = self.fresh("s");
                        // the state named in the body's final continuation is the one current there
                        let body = body.replace("LOOPSTATE", &st_tup);
                        self.env.truncate(mark); self.muts.truncate(mmark);
                        self.tr(&l.expr, &format!("(fun {} => match {} with | {} => {} | _ => Ret (Stop {}) end)", sc, sc, p, body, st_tup))
                    })();
                    self.env.truncate(mark); self.muts.truncate(mmark);
                    self.loop_state.pop();
                    self.retk_stack.pop(); self.ret_ty = saved_ret_ty;
                    let step = res?;
                    let (r, v) = (self.fresh("r"), self.fresh("v"));
                    let sp = st_pat.trim_start_matches('\'');
                    return Ok(format!("(bind (loopWhile {} (fun {} => {}) {}) (fun {} => match {} with Next {} => ({} tt) | Stop {} => ({} tt) | Break {} => ({} {}) end))",
                                      self.fuel, st_pat, step, st_tup, r, r, sp, k, sp, k, v, outer_ret, v));
                }
                let st_pat = self.muts_pat(); let st_tup = self.muts_tuple();
                let outer_ret = self.retk();
                let cond = self.tr(&w.cond, "(fun c => Ret c)")?;
                let saved_ret_ty = std::mem::replace(&mut self.ret_ty, "_".to_string()); self.retk_stack.push("(fun x => Ret (Break x))".into());
                self.loop_state.push(st_tup.clone());
                let mark = self.env.len(); let mmark = self.muts.len();
                let body = self.stmts(&w.body.stmts, &format!("(fun _ => Ret (Next {}))", st_tup));
                self.env.truncate(mark); self.muts.truncate(mmark);
                self.loop_state.pop();
                self.retk_stack.pop(); self.ret_ty = saved_ret_ty;
                let body = body?;
                let (r, v) = (self.fresh("r"), self.fresh("v"));
                let sp = st_pat.trim_start_matches('\'');
                Ok(format!("(bind (whileM {} (fun {} => {}) (fun {} => {}) {}) (fun {} => match {} with Next {} => ({} tt) | Stop {} => ({} tt) | Break {} => ({} {}) end))",
                           self.fuel, st_pat, cond, st_pat, body, st_tup, r, r, sp, k, sp, k, v, outer_ret, v))
            }
            Expr::Continue(c) => {
                if c.label.is_some() { return Err("labelled continue".into()); }
                let st = self.loop_state.last().cloned().ok_or("continue outside a loop")?;
                Ok(format!("(Ret (Next {}))", st))
            }
            Expr::Break(b) => {
                if b.label.is_some() || b.expr.is_some() { return Err("labelled break".into()); }
                let st = self.loop_state.last().cloned().ok_or("break outside a for loop")?;
                Ok(format!("(Ret (Stop {}))", st))
            }
            Expr::Binary(b) if matches!(b.op, BinOp::AddAssign(_) | BinOp::SubAssign(_)) => {
                let name = match &*b.left { Expr::Path(p) => path_str(&p.path), _ => return Err("compound assignment to something that is not a variable".into()) };
                if !self.muts.contains(&name) { return Err(format!("`{}` is not a `let mut`", name)); }
                let pre = match self.int_ty(&b.left, &b.right) { Ty::Usize => "usize", _ => "i32" };
                let opn = if matches!(b.op, BinOp::AddAssign(_)) { "add" } else { "sub" };
                let (y, v) = (self.fresh("t"), self.fresh("v"));
                let c = self.coqname(&name);
                self.tr(&b.right, &format!("(fun {} => (bind ({}_{} {} {}) (fun {} => (let {} := {} in ({} tt)))))", y, pre, opn, c, y, v, c, v, k))
            }
            Expr::MethodCall(m) if m.method == "extend" && m.args.len() == 1 && matches!(&*m.receiver, Expr::Path(p) if self.muts.contains(&path_str(&p.path))) => {
                let name = match &*m.receiver { Expr::Path(p) => path_str(&p.path), _ => unreachable!() };
                let c = self.coqname(&name);
                let v = self.fresh("v");
                self.tr(&m.args[0], &format!("(fun {} => (let {} := ({} ++ {}) in ({} tt)))", v, c, c, v, k))
            }
            Expr::Field(f) => {
                let x = self.fresh("t");
                let g = match &f.member { Member::Named(n) => field(&self.ty(&f.base), &n.to_string()).ok_or(format!("field `{}`", n))?.0, _ => return Err("tuple field".into()) };
                self.tr(&f.base, &format!("(fun {} => ({} ({} {})))", x, k, g, x))
            }
            Expr::MethodCall(m) if (m.method == "pop" && m.args.is_empty() || m.method == "drain" && m.args.len() == 1) && matches!(&*m.receiver, Expr::Path(p) if self.muts.contains(&path_str(&p.path))) => {
                let name = match &*m.receiver { Expr::Path(p) => path_str(&p.path), _ => unreachable!() };
                let c = self.coqname(&name);
                if m.method == "pop" { return Ok(format!("(let {} := removelast {} in ({} tt))", c, c, k)); }
                // v.drain(..1): the first element goes (a panic on an empty vector)
                let ok = matches!(&m.args[0], Expr::Range(r) if r.start.is_none() && matches!(r.limits, RangeLimits::HalfOpen(_)) && matches!(r.end.as_deref(), Some(Expr::Lit(ExprLit { lit: Lit::Int(i), .. })) if i.base10_digits() == "1"));
                if !ok { return Err("drain of something other than ..1".into()); }
                let v = self.fresh("v");
                Ok(format!("(bind (vec_drain1 {}) (fun {} => (let {} := {} in ({} tt))))", c, v, c, v, k))
            }
            Expr::MethodCall(m) if m.method == "next" && m.args.is_empty() && matches!(&*m.receiver, Expr::Path(p) if self.muts.contains(&path_str(&p.path)) && matches!(self.lookup(&path_str(&p.path)), Some(Ty::List(_)))) => {
                // an iterator held in a `let mut`: its remaining elements; next() takes the first
                let name = match &*m.receiver { Expr::Path(p) => path_str(&p.path), _ => unreachable!() };
                let c = self.coqname(&name);
                let v = self.fresh("v");
                Ok(format!("(let {} := hd_error {} in (let {} := tl {} in ({} {})))", v, c, c, c, k, v))
            }
            Expr::MethodCall(m) if (m.method == "clear" || m.method == "push") && matches!(&*m.receiver, Expr::Path(p) if self.muts.contains(&path_str(&p.path))) => {
                let name = match &*m.receiver { Expr::Path(p) => path_str(&p.path), _ => unreachable!() };
                let c = self.coqname(&name);
                if m.method == "clear" { return Ok(format!("(let {} := [] in ({} tt))", c, k)); }
                if m.args.len() != 1 { return Err("push arity".into()); }
                let v = self.fresh("v");
                self.tr(&m.args[0], &format!("(fun {} => (let {} := ({} ++ [{}]) in ({} tt)))", v, c, c, v, k))
            }
            Expr::Index(ix) if !matches!(&*ix.index, Expr::Range(_)) => {
                // v[i] on a vector: panics when out of range
                let (v, i) = (self.fresh("t"), self.fresh("t"));
                let inner = self.tr(&ix.index, &format!("(fun {} => (bind (vec_index {} {}) {}))", i, v, i, k))?;
                self.tr(&ix.expr, &format!("(fun {} => {})", v, inner))
            }
            Expr::Index(ix) if matches!(&*ix.index, Expr::Range(_)) => {
                // &s[a..] / &s[..b] / &s[a..b] on a str: panics when out of range
                let rg = match &*ix.index { Expr::Range(r) => r, _ => unreachable!() };
                if self.ty(&ix.expr) == Ty::UBL {
                    // &bounds[i..]: the items from index i on (a panic when i is past the end)
                    let rg = match &*ix.index { Expr::Range(r) => r, _ => unreachable!() };
                    let (st, en) = (rg.start.as_ref(), rg.end.as_ref());
                    if en.is_some() || st.is_none() || !matches!(rg.limits, RangeLimits::HalfOpen(_)) { return Err("slicing of a bounds list other than [i..]".into()); }
                    let (v, a) = (self.fresh("t"), self.fresh("t"));
                    let inner = self.tr(st.unwrap(), &format!("(fun {} => (bind (vec_from (items {}) {}) {}))", a, v, a, k))?;
                    return self.tr(&ix.expr, &format!("(fun {} => {})", v, inner));
                }
                if !matches!(self.ty(&ix.expr), Ty::Str | Ty::Bytes) { return Err("slicing of something that is not a str or a byte slice".into()); }
                if !matches!(rg.limits, RangeLimits::HalfOpen(_)) { return Err("inclusive slice".into()); }
                let (sv, a, b) = (self.fresh("t"), self.fresh("t"), self.fresh("t"));
                let body = match (&rg.start, &rg.end) {
                    (Some(_), None) => format!("(bind (str_from {} {}) {})", sv, a, k),
                    (None, Some(_)) => format!("(bind (str_to {} {}) {})", sv, b, k),
                    (Some(_), Some(_)) => format!("(bind (str_between {} {} {}) {})", sv, a, b, k),
                    (None, None) => format!("({} {})", k, sv),
                };
                let mut acc = body;
                if let Some(e) = &rg.end { acc = self.tr(e, &format!("(fun {} => {})", b, acc))?; }
                if let Some(e) = &rg.start { acc = self.tr(e, &format!("(fun {} => {})", a, acc))?; }
                self.tr(&ix.expr, &format!("(fun {} => {})", sv, acc))
            }
            Expr::Assign(a) if matches!(&*a.left, Expr::Field(_)) => {
                // b.field = e  on a `let mut` UserBounds
                let f = match &*a.left { Expr::Field(f) => f, _ => unreachable!() };
                let name = match &*f.base { Expr::Path(p) => path_str(&p.path), _ => return Err("assignment to a field of something that is not a variable".into()) };
                if !self.muts.contains(&name) || self.lookup(&name) != Some(Ty::UB) { return Err("field assignment on something that is not a `let mut` UserBounds".into()); }
                let fname = match &f.member { Member::Named(n) => n.to_string(), _ => return Err("tuple field".into()) };
                let v = self.fresh("v");
                let b = ident(&name);
                let upd = match fname.as_str() {
                    "l" => format!("(mkB {} (br {}) (blast {}) (bfb {}))", v, b, b, b),
                    "r" => format!("(mkB (bl {}) {} (blast {}) (bfb {}))", b, v, b, b),
                    "is_last" => format!("(mkB (bl {}) (br {}) {} (bfb {}))", b, b, v, b),
                    "fallback_oob" => format!("(mkB (bl {}) (br {}) (blast {}) {})", b, b, b, v),
                    _ => return Err(format!("field `{}`", fname)),
                };
                self.tr(&a.right, &format!("(fun {} => (let {} := {} in ({} tt)))", v, b, upd, k))
            }
            Expr::Assign(a) => {
                let name = match &*a.left { Expr::Path(p) => path_str(&p.path), _ => return Err("assignment to something that is not a variable".into()) };
                if !self.muts.contains(&name) { return Err(format!("assignment to `{}`, which is not a `let mut` of this function", name)); }
                let v = self.fresh("v");
                self.tr(&a.right, &format!("(fun {} => (let {} := {} in ({} tt)))", v, ident(&name), v, k))
            }
            Expr::ForLoop(f) => {
                // for PAT in ITER { BODY }: the mutable variables in scope are the loop state; `return` leaves the loop with Break
                let st_pat = self.muts_pat(); let st_tup = self.muts_tuple();
                let outer_ret = self.retk();
                let elem_ty = match self.ty(&f.expr) { Ty::Range => Ty::Usize, Ty::List(t) => *t, _ => Ty::Other };
                let mark = self.env.len(); let mmark = self.muts.len();
                self.tuple_hint = vec![];
                let (p, irr) = self.pat(&f.pat, elem_ty)?;
                if !irr { return Err("refutable loop pattern".into()); }
                let saved_ret_ty = std::mem::replace(&mut self.ret_ty, "_".to_string()); self.retk_stack.push("(fun x => Ret (Break x))".into());
                self.loop_state.push(st_tup.clone());
                let body = self.stmts(&f.body.stmts, &format!("(fun _ => Ret (Next {}))", st_tup));
                self.loop_state.pop();
                self.retk_stack.pop(); self.ret_ty = saved_ret_ty;
                self.env.truncate(mark); self.muts.truncate(mmark);
                let body = body?;
                let (src, r, v) = (self.fresh("a"), self.fresh("r"), self.fresh("v"));
                let sp = st_pat.trim_start_matches('\'');
                let after = format!("(fun {} => match {} with Next {} => ({} tt) | Stop {} => ({} tt) | Break {} => ({} {}) end)", r, r, sp, k, sp, k, v, outer_ret, v);
                self.tr(&f.expr, &format!("(fun {} => (bind (loopM (fun {} {} => {}) (to_list {}) {}) {}))", src, st_pat, p, body, src, st_tup, after))
            }
            Expr::MethodCall(m) if m.method == "try_for_each" && m.args.len() == 1 && matches!(&m.args[0], Expr::Closure(_)) => {
                // ITER.try_for_each(|x| -> Result<()> { .. }): Ok(()) goes on, Err(..) stops; the mutable variables
                // (and what has been written) are the loop state in both cases
                let clo = match &m.args[0] { Expr::Closure(c) => c, _ => unreachable!() };
                if clo.inputs.len() != 1 { return Err("closure arity".into()); }
                let st_pat = self.muts_pat(); let st_tup = self.muts_tuple();
                let elem_ty = match self.ty(&m.receiver) { Ty::Range => Ty::Usize, Ty::List(t) => *t, _ => Ty::Other };
                let mark = self.env.len(); let mmark = self.muts.len();
                self.tuple_hint = vec![];
                let (p, irr) = self.pat(&clo.inputs[0], elem_ty)?;
                if !irr { return Err("refutable closure parameter".into()); }
                let ck = format!("(fun r : option unit => match r with Some _ => Ret (Next {}) | None => Ret (Break {}) end)", st_tup, st_tup);
                let saved_ret_ty = std::mem::replace(&mut self.ret_ty, "_".to_string()); self.retk_stack.push(ck.clone());
                let body = self.tr(&clo.body, &ck);
                self.retk_stack.pop(); self.ret_ty = saved_ret_ty;
                self.env.truncate(mark); self.muts.truncate(mmark);
                let (src, r) = (self.fresh("a"), self.fresh("r"));
                let sp = st_pat.trim_start_matches('\'');
                let after = format!("(fun {} => match {} with Next {} => ({} (Some tt)) | Stop {} => ({} (Some tt)) | Break {} => ({} (@None unit)) end)", r, r, sp, k, sp, k, sp, k);
                self.tr(&m.receiver, &format!("(fun {} => (bind (loopM (fun {} {} => {}) (to_list {}) {}) {}))", src, st_pat, p, body?, src, st_tup, after))
            }
            Expr::MethodCall(m) if m.method == "any" && m.args.len() == 1 && matches!(&m.args[0], Expr::Closure(_)) && self.closure_assigns(&m.args[0]) => {
                let clo = match &m.args[0] { Expr::Closure(c) => c, _ => unreachable!() };
                if clo.inputs.len() != 1 { return Err("closure arity".into()); }
                let st_pat = self.muts_pat(); let st_tup = self.muts_tuple();
                let elem_ty = match self.ty(&m.receiver) { Ty::Range => Ty::Usize, Ty::List(t) => *t, _ => Ty::Other };
                let mark = self.env.len(); let mmark = self.muts.len();
                self.tuple_hint = vec![];
                let (p, irr) = self.pat(&clo.inputs[0], elem_ty)?;
                if !irr { return Err("refutable closure parameter".into()); }
                let ck = format!("(fun r : bool => if r then Ret (Stop {}) else Ret (Next {}))", st_tup, st_tup);
                let saved_ret_ty = std::mem::replace(&mut self.ret_ty, "_".to_string()); self.retk_stack.push(ck.clone());
                let body = self.tr(&clo.body, &ck);
                self.retk_stack.pop(); self.ret_ty = saved_ret_ty;
                self.env.truncate(mark); self.muts.truncate(mmark);
                let (src, r) = (self.fresh("a"), self.fresh("r"));
                let sp = st_pat.trim_start_matches('\'');
                let pp = if p.starts_with('(') { format!("'{}", p) } else { p };
                let after = format!("(fun {} : ctrl _ unit => match {} with Next {} => ({} false) | Stop {} => ({} true) | Break _ => ({} false) end)", r, r, sp, k, sp, k, k);
                self.tr(&m.receiver, &format!("(fun {} => (bind (loopM (fun {} {} => {}) (to_list {}) {}) {}))", src, st_pat, pp, body?, src, st_tup, after))
            }
            Expr::MethodCall(m) if ["for_each", "any", "flat_map"].contains(&m.method.to_string().as_str()) && m.args.len() == 1 && matches!(&m.args[0], Expr::Closure(_)) => {
                let clo = match &m.args[0] { Expr::Closure(c) => c, _ => unreachable!() };
                if clo.inputs.len() != 1 { return Err("closure arity".into()); }
                let st_pat = self.muts_pat(); let st_tup = self.muts_tuple();
                let elem_ty = match self.ty(&m.receiver) { Ty::Range => Ty::Usize, Ty::List(t) => *t, _ => Ty::Other };
                let mark = self.env.len(); let mmark = self.muts.len();
                self.tuple_hint = vec![];
                let (p, irr) = self.pat(&clo.inputs[0], elem_ty)?;
                if !irr { return Err("refutable closure parameter".into()); }
                let which = m.method.to_string();
                let src = self.fresh("a");
                let res = if which == "for_each" {
                    // the closure may assign to the captured `let mut`s: they are the fold's state
                    let saved_ret_ty = std::mem::replace(&mut self.ret_ty, "_".to_string()); self.retk_stack.push(format!("(fun _ => Ret {})", st_tup));
                    let body = self.tr(&clo.body, &format!("(fun _ => Ret {})", st_tup));
                    self.retk_stack.pop(); self.ret_ty = saved_ret_ty;
                    format!("(fun {} => (bind (foldM (fun {} {} => {}) (to_list {}) {}) (fun {} => ({} tt))))", src, st_pat, p, body?, src, st_tup, st_pat, k)
                } else {
                    let saved_ret_ty = std::mem::replace(&mut self.ret_ty, "_".to_string()); self.retk_stack.push("(fun x => Ret x)".into());
                    let body = self.tr(&clo.body, "(fun x => Ret x)");
                    self.retk_stack.pop(); self.ret_ty = saved_ret_ty;
                    let f = if which == "any" { "anyM" } else { "flat_mapM" };
                    format!("(fun {} => (bind ({} (fun {} => {}) (to_list {})) {}))", src, f, p, body?, src, k)
                };
                self.env.truncate(mark); self.muts.truncate(mmark);
                self.tr(&m.receiver, &res)
            }
            Expr::Match(m) => self.tr_match(m, k),
            Expr::Return(r) => match &r.expr { Some(e) => { let k = self.retk(); self.tr(e, &k) }, None => Ok(format!("({} tt)", self.retk())) },
            Expr::Try(t) => {
                let (r, v) = (self.fresh("r"), self.fresh("v"));
                // stdout.write_all(x)?  appends to the output accumulated so far (writes do not fail here: C14's business)
                if let Expr::MethodCall(m) = &*t.expr {
                    if m.method == "write_all" && m.args.len() == 1 {
                        if let Expr::Path(p) = &*m.receiver {
                            let w = path_str(&p.path);
                            if self.writers.contains(&w) {
                                let x = self.fresh("w");
                                return self.tr(&m.args[0], &format!("(fun {} => (let {} := ({} ++ {}) in ({} tt)))", x, ident(&w), ident(&w), x, k));
                            }
                        }
                    }
                }
                if let Expr::MethodCall(m) = &*t.expr {
                    if m.method == "read_to_end" && m.args.len() == 1 {
                        if let (Expr::Path(rp), Expr::Reference(ar)) = (&*m.receiver, &m.args[0]) {
                            if let Expr::Path(bp) = &*ar.expr {
                                let (rn, bn) = (path_str(&rp.path), path_str(&bp.path));
                                if self.readers.contains(&rn) && self.muts.contains(&bn) {
                                    // stdin.read_to_end(&mut buf)?: everything that is left is appended (reads do not fail here: C14's business)
                                    let c = self.coqname(&bn);
                                    return Ok(format!("(let {} := ({} ++ {}) in ({} tt))", c, c, ident(&rn), k));
                                }
                            }
                        }
                    }
                }
                let rk = self.retk();
                self.tr(&t.expr, &format!("(fun {} => match {} with Some {} => ({} {}) | None => ({} None) end)", r, r, v, k, v, rk))
            }
            Expr::Macro(m) => {
                let name = path_str(&m.mac.path);
                if name == "bail" { bail_args_harmless(&m.mac)?; Ok(format!("({} None)", self.retk())) }
                else if name == "panic" { Ok(format!("(@Panic {})", self.ret_ty)) }
                else { Err(format!("macro `{}!`", name)) }
            }
            Expr::Call(c) => {
                let f = match &*c.func { Expr::Path(p) => path_str(&p.path), _ => return Err("call of a non-path".into()) };
                if let Some(g) = self.calls.get(&f).cloned() {
                    let wpos = c.args.iter().position(|a| matches!(a, Expr::Path(p) if self.writers.contains(&path_str(&p.path))));
                    if let Some(wi) = wpos {
                        // f(.., stdout, ..): the callee starts from an empty output and returns (value, written)
                        let w = match &c.args[wi] { Expr::Path(p) => self.coqname(&path_str(&p.path)), _ => unreachable!() };
                        let rest: Vec<&Expr> = c.args.iter().enumerate().filter(|(i, _)| *i != wi).map(|(_, a)| a).collect();
                        let names: Vec<String> = rest.iter().map(|_| self.fresh("a")).collect();
                        let (rv, wv) = (self.fresh("r"), self.fresh("w"));
                        let mut acc = format!("(bind ({} {}) (fun '({}, {}) => (let {} := ({} ++ {}) in ({} {}))))", g, names.join(" "), rv, wv, w, w, wv, k, rv);
                        for (a, n) in rest.iter().zip(names.iter()).rev() { acc = self.tr(a, &format!("(fun {} => {})", n, acc))?; }
                        return Ok(acc);
                    }
                }
                if f == "read_line_with_eol" && c.args.len() == 3 {
                    // read_utils::read_line_with_eol(reader, &mut buf, eol): the next line with its terminator, taken off the input
                    // (None at the end of input, Some(Err) when the line is not valid UTF-8); the buffer's content is the value returned
                    if let Expr::Path(rp) = &c.args[0] {
                        let rn = path_str(&rp.path);
                        if self.readers.contains(&rn) && self.muts.contains(&rn) {
                            let e = self.pure(&c.args[2])?.ok_or("read_line_with_eol: the terminator")?;
                            let (a, b) = (self.fresh("r"), self.fresh("rest"));
                            return Ok(format!("(let '({}, {}) := read_line_eol {} {} in (let {} := {} in ({} {})))", a, b, e, ident(&rn), ident(&rn), b, k, a));
                        }
                    }
                    return Err("read_line_with_eol on something other than the reader".into());
                }
                if f == "read_bytes_to_end" && c.args.len() == 2 {
                    // read_utils::read_bytes_to_end(reader, &mut buf): buf becomes everything that is left of the input;
                    // None when that is nothing, Some(Ok(..)) otherwise (reads do not fail here: C14's business)
                    if let (Expr::Path(rp), Expr::Reference(ar)) = (&c.args[0], &c.args[1]) {
                        if let Expr::Path(bp) = &*ar.expr {
                            let (rn, bn) = (path_str(&rp.path), path_str(&bp.path));
                            if self.readers.contains(&rn) && self.muts.contains(&bn) {
                                let cn = self.coqname(&bn);
                                return Ok(format!("(let {} := {} in ({} (match {} with [] => None | _ => Some (Some tt) end)))", cn, ident(&rn), k, cn));
                            }
                        }
                    }
                    return Err("read_bytes_to_end on something other than the reader and a local buffer".into());
                }
                if let (Some(g), Some(mi)) = (self.calls.get(&f).cloned(), mut_vec_arg(&f)) {
                    // f(.., buf, ..) with buf: &mut Vec: the callee returns (value, final buf)
                    let mname = match c.args.get(mi) { Some(Expr::Path(p)) if self.muts.contains(&path_str(&p.path)) => self.coqname(&path_str(&p.path)), _ => return Err(format!("`{}` called with something other than a scratch vector of this function", f)) };
                    let names: Vec<String> = c.args.iter().map(|_| self.fresh("a")).collect();
                    let (rv, mv) = (self.fresh("r"), self.fresh("m"));
                    let mut acc = format!("(bind ({} {}) (fun '({}, {}) => (let {} := {} in ({} {}))))", g, names.join(" "), rv, mv, mname, mv, k, rv);
                    for (a, n) in c.args.iter().zip(names.iter()).rev() { acc = self.tr(a, &format!("(fun {} => {})", n, acc))?; }
                    return Ok(acc);
                }
                let names: Vec<String> = c.args.iter().map(|_| self.fresh("a")).collect();
                let head = if let Some(g) = self.calls.get(&f).cloned() { format!("(bind ({} {}) {})", g, names.join(" "), k) }
                           else if f == "Err" { format!("({} None)", k) }
                           else if (f.ends_with("Cow::Borrowed") || f.ends_with("Cow::Owned") || f.ends_with("NoExpand")) && names.len() == 1 { format!("({} {})", k, names[0]) }
                           else if let Some((g, _)) = ctor1(&f) { format!("({} ({} {}))", k, g, names.join(" ")) }
                           else { return Err(format!("call of `{}`", f)); };
                let mut acc = head;
                for (a, n) in c.args.iter().zip(names.iter()).rev() { acc = self.tr(a, &format!("(fun {} => {})", n, acc))?; }
                Ok(acc)
            }
            Expr::MethodCall(m) if (m.method == "expect" || m.method == "unwrap")
                    && matches!(&*m.receiver, Expr::MethodCall(i) if i.method == "try_into" && i.args.is_empty()) => {
                // usize -> i32 conversion that panics when it does not fit
                let inner = match &*m.receiver { Expr::MethodCall(i) => &i.receiver, _ => unreachable!() };
                if self.ty(inner) != Ty::Usize { return Err("try_into() from a type other than usize".into()); }
                let x = self.fresh("t");
                self.tr(inner, &format!("(fun {} => (bind (usize_to_i32 {}) {}))", x, x, k))
            }
            Expr::MethodCall(m) if m.args.is_empty() && ["clone", "into_iter", "iter", "as_bytes", "as_ref", "to_owned", "as_deref", "cloned", "as_slice"].contains(&m.method.to_string().as_str()) => self.tr(&m.receiver, k),
            Expr::MethodCall(m) if m.args.len() == 1 && (m.method == "starts_with" || m.method == "ends_with") => {
                let arg = self.pure(&m.args[0])?.ok_or("starts_with/ends_with with an effectful argument")?;
                let x = self.fresh("t");
                self.tr(&m.receiver, &format!("(fun {} => ({} ({} {} {})))", x, k, m.method, arg, x))
            }
            Expr::MethodCall(m) if m.args.is_empty() && (m.method == "len" || m.method == "first") => {
                let x = self.fresh("t");
                let body = if m.method == "len" { format!("(Z.of_nat (length {}))", x) } else { format!("(hd_error {})", x) };
                self.tr(&m.receiver, &format!("(fun {} => ({} {}))", x, k, body))
            }
            Expr::MethodCall(m) if m.method == "unwrap_or" && m.args.len() == 1 => {
                let d = self.pure(&m.args[0])?.ok_or("unwrap_or with an effectful default")?;
                let x = self.fresh("t");
                self.tr(&m.receiver, &format!("(fun {} => ({} (match {} with Some v_ => v_ | None => {} end)))", x, k, x, d))
            }
            Expr::MethodCall(m) if (m.method == "expect" || m.method == "unwrap") => {
                // Option::unwrap: panics on None
                let x = self.fresh("t");
                self.tr(&m.receiver, &format!("(fun {} => (bind (opt_unwrap {}) {}))", x, x, k))
            }
            Expr::MethodCall(m) if m.method == "map" && m.args.len() == 1 && matches!(&m.args[0], Expr::Closure(_)) && matches!(self.ty(&m.receiver), Ty::Opt(_)) => {
                // Option::map(|x| BODY)
                let clo = match &m.args[0] { Expr::Closure(c) => c, _ => unreachable!() };
                if clo.inputs.len() != 1 { return Err("closure arity".into()); }
                let inner = match self.ty(&m.receiver) { Ty::Opt(t) => *t, _ => Ty::Other };
                let mark = self.env.len(); let mmark = self.muts.len();
                self.tuple_hint = vec![];
                let (p, irr) = self.pat(&clo.inputs[0], inner)?;
                if !irr { return Err("refutable closure parameter".into()); }
                let saved_ret_ty = std::mem::replace(&mut self.ret_ty, "_".to_string()); self.retk_stack.push("(fun x => Ret x)".into());
                let body = self.tr(&clo.body, "(fun x => Ret x)");
                self.retk_stack.pop(); self.ret_ty = saved_ret_ty;
                self.env.truncate(mark); self.muts.truncate(mmark);
                let src = self.fresh("a");
                self.tr(&m.receiver, &format!("(fun {} => (bind (opt_mapM (fun {} => {}) {}) {}))", src, p, body?, src, k))
            }
            Expr::MethodCall(m) if m.method == "collect" && matches!(&*m.receiver, Expr::MethodCall(i) if i.method == "map" && i.args.len() == 1) => {
                // ITER.map(|x| BODY).collect()  ==>  the bodies evaluated in order over the elements
                let mp = match &*m.receiver { Expr::MethodCall(i) => i, _ => unreachable!() };
                let clo = match &mp.args[0] { Expr::Closure(c) => c, Expr::Path(p) => {
                        // a constructor used as a function: .map(BoundOrFiller::Bound)
                        let f = path_str(&p.path);
                        let (g, _) = ctor1(&f).ok_or(format!("map over `{}`", f))?;
                        let src = self.fresh("a");
                        return self.tr(&mp.receiver, &format!("(fun {} => ({} (List.map {} (to_list {}))))", src, k, g, src));
                    }
                    _ => return Err("map over something that is not a closure".into()) };
                if clo.inputs.len() != 1 { return Err("closure arity".into()); }
                let elem_ty = match self.ty(&mp.receiver) { Ty::Range => Ty::Usize, Ty::List(t) => *t, _ => Ty::Other };
                let mark = self.env.len();
                self.tuple_hint = vec![];
                let (p, irr) = self.pat(&clo.inputs[0], elem_ty)?;
                if !irr { return Err("refutable closure parameter".into()); }
                let saved_ret_ty2 = std::mem::replace(&mut self.ret_ty, "_".to_string());
                let body = self.tr(&clo.body, "(fun x => Ret x)");
                self.ret_ty = saved_ret_ty2;
                let body = body?;
                self.env.truncate(mark);
                let src = self.fresh("a");
                self.tr(&mp.receiver, &format!("(fun {} => (bind (mapM (fun {} => {}) (to_list {})) {}))", src, p, body, src, k))
            }
            Expr::MethodCall(m) if m.method == "collect" && m.args.is_empty() && self.ty(&m.receiver) == Ty::UBL => {
                let x = self.fresh("t");
                self.tr(&m.receiver, &format!("(fun {} => ({} (items {})))", x, k, x))
            }
            Expr::MethodCall(m) if m.method == "collect" && m.args.is_empty() => self.tr(&m.receiver, k),
            Expr::MethodCall(m) => {
                let name = m.method.to_string();
                let g = self.calls.get(&name).cloned().ok_or(format!("method `{}` with an effectful operand", name))?;
                let rn = self.fresh("a");
                let names: Vec<String> = m.args.iter().map(|_| self.fresh("a")).collect();
                let mut acc = format!("(bind ({} {} {}) {})", g, rn, names.join(" "), k);
                for (a, n) in m.args.iter().zip(names.iter()).rev() { acc = self.tr(a, &format!("(fun {} => {})", n, acc))?; }
                self.tr(&m.receiver, &format!("(fun {} => {})", rn, acc))
            }
            Expr::Tuple(t) => {
                let names: Vec<String> = t.elems.iter().map(|_| self.fresh("a")).collect();
                let mut acc = format!("({} ({}))", k, names.join(", "));
                for (a, n) in t.elems.iter().zip(names.iter()).rev() { acc = self.tr(a, &format!("(fun {} => {})", n, acc))?; }
                Ok(acc)
            }
            Expr::Struct(s) if struct_ctor(&path_str(&s.path)).is_some() => {
                let (ctor, order) = struct_ctor(&path_str(&s.path)).unwrap();
                let names: Vec<String> = order.iter().map(|_| self.fresh("a")).collect();
                let mut acc = format!("({} ({} {}))", k, ctor, names.join(" "));
                for (fname, n) in order.iter().zip(names.iter()).rev() {
                    let fv = s.fields.iter().find(|f| matches!(&f.member, Member::Named(m) if m == fname)).ok_or(format!("field `{}` of the struct literal", fname))?;
                    acc = self.tr(&fv.expr, &format!("(fun {} => {})", n, acc))?;
                }
                if s.fields.len() != order.len() || s.rest.is_some() { return Err("struct literal with other fields than expected".into()); }
                Ok(acc)
            }
            Expr::Struct(s) => {
                if path_str(&s.path) != "Range" { return Err("struct literal".into()); }
                let (a, b) = (self.fresh("a"), self.fresh("a"));
                let mut st = None; let mut en = None;
                for f in &s.fields { match &f.member { Member::Named(n) if n == "start" => st = Some(&f.expr), Member::Named(n) if n == "end" => en = Some(&f.expr), _ => return Err("Range field".into()) } }
                let inner = self.tr(en.ok_or("Range.end")?, &format!("(fun {} => ({} ({}, {})))", b, k, a, b))?;
                self.tr(st.ok_or("Range.start")?, &format!("(fun {} => {})", a, inner))
            }
            other => Err(format!("effectful expression kind at line {}", other.span().start().line)),
        }
    }

    fn tr_match(&mut self, m: &ExprMatch, k: &str) -> R<String> {
        // the scrutinee is evaluated once, then the arms are tried in order
        let sc = self.fresh("s");
        // component types of a tuple scrutinee, as hints for the variables the patterns bind
        self.tuple_hint = match &*m.expr { Expr::Tuple(t) => t.elems.iter().map(|e| self.ty(e)).collect(), _ => vec![] };
        let whole_hint = self.ty(&m.expr);
        let hints = self.tuple_hint.clone();
        let (kj, jn) = self.join(k);
        let mut rest = format!("(fun _ : unit => @Panic {})", self.ret_ty);
        let mut lets: Vec<(String, String)> = vec![];
        for arm in m.arms.iter().rev() {
            let mark = self.env.len();
            self.tuple_hint = hints.clone();
            let (p, irrefutable) = self.pat(&arm.pat, whole_hint.clone())?;
            let body = self.tr(&arm.body, &kj)?;
            let fall = self.fresh("fall");
            let guarded = match &arm.guard {
                Some((_, g)) => {
                    // the guard is evaluated (it may overflow) after the pattern has matched
                    let gv = self.fresh("g");
                    self.tr(g, &format!("(fun {} : bool => (if {} then {} else ({} tt)))", gv, gv, body, fall))?
                }
                None => body,
            };
            self.env.truncate(mark);
            // irrefutable tuple patterns need the destructuring let
            let term = if irrefutable && p.starts_with('(') { format!("(let '{} := {} in {})", p, sc, guarded) }
                       else if irrefutable { format!("(let {} := {} in {})", p, sc, guarded) }
                       else { format!("(match {} with | {} => {} | _ => ({} tt) end)", sc, p, guarded, fall) };
            // (a thunk nobody calls - the arm is a catch-all - is not emitted: its type could not be inferred)
            if term.contains(&format!("({} tt)", fall)) { lets.push((fall, rest)); }
            rest = format!("(fun _ : unit => {})", term);
        }
        let mut out = format!("({} tt)", rest);
        for (name, val) in lets.iter().rev() { out = format!("(let {} := {} in {})", name, val, out); }
        let body = Self::wrap(&jn, out);
        self.tr(&m.expr, &format!("(fun {} => {})", sc, body))
    }

    fn stmts(&mut self, ss: &[Stmt], k: &str) -> R<String> {
        let (first, rest) = match ss.split_first() { None => return Ok(format!("({} tt)", k)), Some(x) => x };
        match first {
            Stmt::Local(l) if l.init.is_none() => {
                // `let x: T;` assigned later: a mutable variable with a value nobody reads
                let (name, ty) = match &l.pat { Pat::Type(pt) => match &*pt.pat { Pat::Ident(pi) => (pi.ident.to_string(), ty_of_type(&pt.ty)), _ => return Err("let without a value".into()) }, _ => return Err("let without a value or a type".into()) };
                let dflt = match ty.0.as_str() { "bytes" => "([] : bytes)", "ublist" => "(mkL [] SCont)", _ => return Err(format!("let without a value, of type {}", ty.0)) };
                if self.lookup(&name).is_some() { return Err(format!("`{}` declared twice", name)); }
                self.muts.push(name.clone());
                self.env.push((name.clone(), ty.1));
                let el = self.env.len();
                let rest_s = self.stmts(rest, k)?;
                let rest_s = self.stage(rest, rest_s, el);
                Ok(format!("(let {} := {} in {})", ident(&name), dflt, rest_s))
            }
            Stmt::Local(l) => {
                let init = l.init.as_ref().ok_or("let without a value")?;
                if init.diverge.is_some() { return Err("let-else".into()); }
                let hint = match &l.pat {
                    Pat::Type(_) => Ty::Other,
                    Pat::Ident(pi) if pi.mutability.is_some() && matches!(&*init.expr, Expr::Lit(ExprLit { lit: Lit::Int(i), .. }) if i.suffix().is_empty()) => {
                        // `let mut x = 0`: usize when it indexes something (`.get(x)`), otherwise decided at each use
                        let n = pi.ident.to_string();
                        if self.stage_top.is_some() { if self.body_text.contains(&format!("get ({})", n)) || self.body_text.contains(&format!("get ( {} )", n)) { Ty::Usize } else { Ty::Int } } else { Ty::Other }
                    }
                    _ => self.ty(&init.expr) };
                let mark = self.env.len();
                let mm0 = self.muts.len();
                self.tuple_hint = vec![];
                // `let mut s = s;` re-binds a name to its own value: harmless
                self.rebind_ok = matches!((&l.pat, &*init.expr), (Pat::Ident(pi), Expr::Path(ep)) if ep.path.is_ident(&pi.ident));
                let pr = self.pat(&l.pat, hint);
                self.rebind_ok = false;
                let (p, irrefutable) = pr?;
                if !irrefutable { return Err("refutable let pattern".into()); }
                let el = self.env.len();
                let rest_s = self.stmts(rest, k)?;
                let rest_s = self.stage(rest, rest_s, el);
                // the initialiser knows neither this binding nor the `let mut`s declared after it
                self.muts.truncate(mm0);
                // the initialiser sees the environment from before the binding (shadowing)
                let bound: Vec<(String, Ty)> = self.env.drain(mark..).collect();
                // an empty vector needs its element type said (`let v: Vec<T> = Vec::new()`)
                let annotated = match (&l.pat, &*init.expr) {
                    (Pat::Type(pt), Expr::Call(c)) if matches!(&*c.func, Expr::Path(fp) if path_str(&fp.path) == "Vec::with_capacity" || path_str(&fp.path) == "Vec::new") => {
                        let (ct, _) = ty_of_type(&pt.ty);
                        if ct.contains("UNKNOWN") || p.starts_with('(') { None } else { Some(format!("({} : {})", p, ct)) }
                    }
                    _ => None };
                let binder = annotated.unwrap_or_else(|| format!("{}{}", if p.starts_with('(') { "'" } else { "" }, p));
                let r = self.tr(&init.expr, &format!("(fun {} => {})", binder, rest_s));
                drop(bound);
                r
            }
            Stmt::Expr(e, semi) => {
                if rest.is_empty() && semi.is_none() { return self.tr(e, k); }
                if rest.is_empty() {
                    // `expr;` in tail position: its value is dropped, the block yields ()
                    return self.tr(e, &format!("(fun _ => ({} tt))", k));
                }
                let mm0 = self.muts.len();
                let el = self.env.len();
                let rest_s = self.stmts(rest, k)?;
                let rest_s = self.stage(rest, rest_s, el);
                self.env.truncate(el);
                self.muts.truncate(mm0);
                let unit = matches!(e, Expr::If(ExprIf { else_branch: None, .. }));
                self.tr(e, &format!("(fun _{} => {})", if unit { " : unit" } else { "" }, rest_s))
            }
            Stmt::Macro(m) if path_str(&m.mac.path) == "write_maybe_as_json" => {
                // the macro of src/cut_str.rs (its definition is compared with the one this expansion was written for):
                //   if $as_json { $w.write_all(serde_json::to_string(std::str::from_utf8(&$t)?)?.as_bytes())? } else { $w.write_all(&$t)? }
                let parser = punctuated::Punctuated::<Expr, Token![,]>::parse_terminated;
                let args = m.mac.parse_body_with(parser).map_err(|e| format!("write_maybe_as_json! arguments: {}", e))?;
                if args.len() != 3 { return Err("write_maybe_as_json! arity".into()); }
                let w = match &args[0] { Expr::Path(p) => path_str(&p.path), _ => return Err("write_maybe_as_json! writer".into()) };
                if !self.writers.contains(&w) { return Err("write_maybe_as_json! on something that is not the writer".into()); }
                let t = self.pure(&args[1])?.ok_or("write_maybe_as_json! text")?;
                let c = self.pure(&args[2])?.ok_or("write_maybe_as_json! flag")?;
                let mm0 = self.muts.len();
                let el = self.env.len();
                let rest_s = self.stmts(rest, k)?;
                let rest_s = self.stage(rest, rest_s, el);
                self.env.truncate(el);
                self.muts.truncate(mm0);
                let wn = ident(&w);
                let rk = self.retk();
                Ok(format!("(if {} then (match json_text {} with Some j_ => (let {} := ({} ++ j_) in {}) | None => ({} None) end) else (let {} := ({} ++ {}) in {}))", c, t, wn, wn, rest_s, rk, wn, wn, t, rest_s))
            }
            Stmt::Macro(m) => {
                let name = path_str(&m.mac.path);
                if name == "bail" { bail_args_harmless(&m.mac)?; Ok(format!("({} None)", self.retk())) } else { Err(format!("macro `{}!`", name)) }
            }
            Stmt::Item(_) => Err("nested item".into()),
        }
    }
}

/// gallina type of a Rust return type (Result/Option -> option, Vec -> list, Range -> pair)
fn impl_iter_item(t: &Type) -> Option<&Type> {
    if let Type::ImplTrait(it) = t {
        for b in &it.bounds {
            if let TypeParamBound::Trait(tb) = b {
                let seg = tb.path.segments.last()?;
                if seg.ident == "Iterator" {
                    if let PathArguments::AngleBracketed(a) = &seg.arguments {
                        for g in &a.args { if let GenericArgument::AssocType(at) = g { if at.ident == "Item" { return Some(&at.ty); } } }
                    }
                }
            }
        }
    }
    None
}

fn ret_type(t: &Type) -> Option<String> {
    if let Some(item) = impl_iter_item(t) { return Some(format!("(list {})", ret_type(item)?)); }
    if let Type::Slice(sl) = t { if matches!(&*sl.elem, Type::Path(p) if path_str(&p.path) == "u8") { return Some("bytes".into()); } }
    if let Type::Tuple(tt) = t { if tt.elems.is_empty() { return Some("unit".into()); } }
    match t {
        Type::Reference(r) => ret_type(&r.elem),
        Type::Path(p) => {
            let seg = p.path.segments.last()?;
            let name = seg.ident.to_string();
            let arg = |i: usize| -> Option<String> {
                match &seg.arguments {
                    PathArguments::AngleBracketed(a) => match a.args.iter().nth(i)? { GenericArgument::Type(t) => ret_type(t), _ => None },
                    _ => None,
                }
            };
            Some(match name.as_str() {
                "i32" | "usize" => "Z".into(),
                "bool" => "bool".into(),
                "Ordering" => "comparison".into(),
                "Side" => "side".into(),
                "UserBounds" => "ubound".into(),
                "UserBoundsList" => "ublist".into(),
                "BoundOrFiller" => "bof".into(),
                "Range" => "(Z * Z)%type".into(),
                "Option" | "Result" => format!("(option {})", arg(0)?),
                "Cow" => match &seg.arguments {
                    PathArguments::AngleBracketed(a) => a.args.iter().find_map(|g| if let GenericArgument::Type(t) = g { ret_type(t) } else { None })?,
                    _ => return None },
                "Vec" => format!("(list {})", arg(0)?),
                _ => return None,
            })
        }
        _ => None,
    }
}

/// struct literals of the eligibility conversions: constructor of Tie/RsPrelude.v and its field order
fn struct_ctor(name: &str) -> Option<(&'static str, &'static [&'static str])> {
    Some(match name {
        "FastOpt" => ("mkGFO", &["delimiter", "join", "eol", "bounds", "only_delimited", "trim", "fallback_oob"]),
        "ForwardBounds" => ("mkFB", &["list", "last_bound_idx"]),
        "StreamOpt" => ("mkGSO", &["delimiter", "replace_delimiter", "join", "eol", "bounds", "fallback_oob"]),
        _ => return None,
    })
}

fn result_of_self(t: &Type) -> bool {
    if let Type::Path(p) = t {
        if let Some(seg) = p.path.segments.last() {
            if seg.ident == "Result" {
                if let PathArguments::AngleBracketed(a) = &seg.arguments {
                    if let Some(GenericArgument::Type(Type::Path(q))) = a.args.first() { return path_str(&q.path) == "Self"; }
                }
            }
        }
    }
    false
}

/// `bail!(fmt, args..)` drops its message in the translation; that is only sound when building the message
/// cannot itself fail: the arguments must be plain variables, fields or `self`
fn bail_args_harmless(mac: &Macro) -> R<()> {
    let parser = punctuated::Punctuated::<Expr, Token![,]>::parse_terminated;
    let args = mac.parse_body_with(parser).map_err(|e| format!("bail! arguments: {}", e))?;
    fn simple(e: &Expr) -> bool {
        match e {
            Expr::Lit(_) | Expr::Path(_) => true,
            Expr::Field(f) => simple(&f.base),
            Expr::Reference(r) => simple(&r.expr),
            Expr::Paren(p) => simple(&p.expr),
            Expr::Unary(u) => matches!(u.op, UnOp::Deref(_)) && simple(&u.expr),
            _ => false,
        }
    }
    for a in &args { if !simple(a) { return Err("an error message built by an expression that may itself fail".into()); } }
    Ok(())
}

fn closure_is_harmless_bail(e: &Expr) -> R<()> {
    let clo = match e { Expr::Closure(c) => c, _ => return Err("or_else with something that is not a closure".into()) };
    let mut body = &*clo.body;
    if let Expr::Block(b) = body { if b.block.stmts.len() == 1 { if let Stmt::Expr(e, _) = &b.block.stmts[0] { body = e; } else if let Stmt::Macro(m) = &b.block.stmts[0] { return if path_str(&m.mac.path) == "bail" { bail_args_harmless(&m.mac) } else { Err("or_else closure".into()) }; } } }
    match body { Expr::Macro(m) if path_str(&m.mac.path) == "bail" => bail_args_harmless(&m.mac), _ => Err("or_else with a closure that does more than bail!".into()) }
}

fn quote_type(t: &Type) -> String {
    match t { Type::Path(p) => path_str(&p.path), Type::Reference(r) => quote_type(&r.elem), _ => "UNKNOWN".into() }
}

fn compiled_out(attrs: &[Attribute]) -> bool {
    // #[cfg(not(feature = ".."))]: not part of the default build, which is the one under verification
    attrs.iter().any(|a| a.path().is_ident("cfg") && quote::ToTokens::to_token_stream(&a.meta).to_string().replace(' ', "").starts_with("cfg(not("))
}

fn find_fn<'a>(file: &'a File, t: &Target) -> Option<(&'a Signature, &'a Block, usize)> {
    for it in &file.items {
        match it {
            Item::Fn(f) if compiled_out(&f.attrs) => continue,
            Item::Fn(f) if t.impl_self.is_none() && f.sig.ident == t.func => return Some((&f.sig, &f.block, f.span().start().line)),
            Item::Impl(im) => {
                let self_ok = match (&*im.self_ty, t.impl_self) { (Type::Path(p), Some(s)) => path_str(&p.path) == s, _ => false };
                let trait_ok = match (&im.trait_, t.impl_trait) { (Some((_, p, _)), Some(tr)) => p.segments.last().map_or(false, |s| s.ident == tr), (None, None) => true, _ => false };
                if !(self_ok && trait_ok) { continue; }
                for ii in &im.items {
                    if let ImplItem::Fn(f) = ii { if f.sig.ident == t.func { return Some((&f.sig, &f.block, f.span().start().line)); } }
                }
            }
            _ => {}
        }
    }
    None
}

fn translate(t: &Target, sig: &Signature, block: &Block, ret_tys: &HashMap<String, Ty>) -> R<(String, Ty)> {
    let mut cx = Cx { env: vec![], fresh: 0, calls: t.calls.iter().map(|(a, b)| (a.to_string(), b.to_string())).collect(),
                      call_ty: t.calls.iter().filter_map(|(a, b)| ret_tys.get(*b).map(|ty| (a.to_string(), ty.clone()))).collect(),
                      renames: vec![], tuple_hint: vec![], ret_ty: String::new(), inline_k: false, muts: vec![], rebind_ok: false, writers: vec![], readers: vec![], loop_state: vec![], fuel: t.fuel.to_string(), retk_stack: vec![], stage_top: None, stages: vec![], body_text: quote::ToTokens::to_token_stream(block).to_string() };
    cx.inline_k = quote::ToTokens::to_token_stream(block).to_string().contains("let mut ");
    let self_coq = match t.impl_self { Some("Side") => ("side", Ty::Side), Some("UserBounds") => ("ubound", Ty::UB), Some("UserBoundsList") => ("ublist", Ty::Other), Some("FastOpt") => ("gfopt", Ty::Other), Some("StreamOpt") => ("gsopt", Ty::Other), Some("ForwardBounds") => ("gfb", Ty::FBRec), _ => ("UNKNOWN", Ty::Other) };
    let mut rty = Ty::Other;
    cx.ret_ty = match &sig.output {
        ReturnType::Type(_, t) => {
            if matches!(&**t, Type::Path(p) if path_str(&p.path) == "Self") { rty = self_coq.1.clone(); self_coq.0.to_string() }
            else if result_of_self(t) { rty = Ty::Opt(Box::new(self_coq.1.clone())); format!("(option {})", self_coq.0) }
            else { rty = ty_of_type(t).1; ret_type(t).ok_or("return type")? }
        }
        ReturnType::Default => "unit".into(),
    };
    let mut params = String::new();
    for a in &sig.inputs {
        match a {
            FnArg::Receiver(_) => { cx.env.push(("self".into(), self_coq.1.clone())); write!(params, " (self : {})", self_coq.0).unwrap(); }
            FnArg::Typed(pt) => {
                let name = match &*pt.pat { Pat::Ident(i) => i.ident.to_string(), _ => return Err("parameter pattern".into()) };
                let (coq, ty) = match &*pt.ty {
                    Type::Reference(r) if matches!(&*r.elem, Type::Path(p) if path_str(&p.path) == "Self") => (self_coq.0.to_string(), self_coq.1.clone()),
                    Type::Path(p) if path_str(&p.path) == "Self" => (self_coq.0.to_string(), self_coq.1.clone()),
                    other => ty_of_type(other),
                };
                let reader = matches!(&*pt.ty, Type::Reference(r) if r.mutability.is_some() && matches!(&*r.elem, Type::Path(p) if sig.generics.params.iter().any(|g| matches!(g, GenericParam::Type(tp) if p.path.is_ident(&tp.ident)
                    && tp.bounds.iter().any(|b| matches!(b, TypeParamBound::Trait(tb) if tb.path.segments.last().map_or(false, |s| s.ident == "BufRead" || s.ident == "Read")))))));
                if reader {
                    // stdin: &mut R (R: BufRead): the input that is left to read
                    cx.env.push((name.clone(), Ty::Bytes));
                    cx.readers.push(name.clone());
                    if quote::ToTokens::to_token_stream(block).to_string().contains("while let ") { cx.muts.push(name.clone()); }
                    write!(params, " ({} : bytes)", ident(&name)).unwrap();
                    continue;
                }
                if matches!(&*pt.ty, Type::Reference(r) if r.mutability.is_some() && matches!(&*r.elem, Type::Path(p) if sig.generics.params.iter().any(|g| matches!(g, GenericParam::Type(tp) if p.path.is_ident(&tp.ident))))) {
                    // stdout: &mut W
                    cx.writers.push(name.clone());
                    cx.muts.push(name.clone());
                    cx.env.push((name.clone(), Ty::Bytes));
                    continue;
                }
                if matches!(&*pt.ty, Type::Reference(r) if r.mutability.is_some()) && matches!(ty, Ty::List(_)) {
                    // a scratch vector handed in by the caller: a mutable variable whose initial value is the argument
                    cx.muts.push(name.clone());
                }
                if coq.starts_with("UNKNOWN") { return Err(format!("parameter type of `{}`", name)); }
                cx.env.push((name.clone(), ty));
                write!(params, " ({} : {})", ident(&name), coq).unwrap();
            }
        }
    }
    if !cx.muts.is_empty() { cx.inline_k = true; }
    if !cx.writers.is_empty() {
        // the result is paired with the bytes written: (value, output)
        cx.inline_k = true;
        let outs = cx.writers.iter().map(|w| ident(w)).collect::<Vec<_>>().join(", ");
        let inits = cx.writers.iter().map(|w| format!("let {} := ([] : bytes) in ", ident(w))).collect::<String>();
        cx.retk_stack.push(format!("(fun x => Ret (x, {}))", outs));
        let k = cx.retk();
        if t.name == "cut_str" || t.name == "lines_forward" {
            let r = block.stmts.as_ptr_range();
            cx.stage_top = Some((format!("gen_{}", t.name), r.start as usize, r.end as usize, block.stmts.len()));
        }
        let body = cx.stmts(&block.stmts, &k)?;
        let stages = if cx.stages.is_empty() { String::new() } else { format!("{}\n", cx.stages.join("\n")) };
        return Ok((format!("{}Definition gen_{}{} : rs ({} * bytes) :=\n  ({}{}).\n", stages, t.name, params, cx.ret_ty, inits, body), rty));
    }
    if t.ret_muts && !cx.muts.is_empty() {
        cx.inline_k = true;
        let outs = cx.muts.iter().map(|w| ident(w)).collect::<Vec<_>>().join(", ");
        cx.retk_stack.push(format!("(fun x => Ret (x, {}))", outs));
        let k = cx.retk();
        let body = cx.stmts(&block.stmts, &k)?;
        return Ok((format!("Definition gen_{}{} :=\n  ({}).\n", t.name, params, body), rty));
    }
    let k = cx.retk();
    let body = cx.stmts(&block.stmts, &k)?;
    Ok((format!("Definition gen_{}{} : rs {} :=\n  {}.\n", t.name, params, cx.ret_ty, body), rty))
}

fn main() {
    let args: Vec<String> = std::env::args().collect();
    if args.len() != 3 { eprintln!("usage: rs2coq <repo-root> <out-dir>"); std::process::exit(2); }
    let (root, out) = (&args[1], &args[2]);
    std::fs::create_dir_all(out).unwrap();
    let mut status = String::from("{\n");
    let mut okset: Vec<&str> = vec![];
    let mut ret_tys: HashMap<String, Ty> = HashMap::new();
    for (n, t) in TARGETS.iter().enumerate() {
        let path = format!("{}/{}", root, t.file);
        let outfile = format!("{}/Gen_{}.v", out, t.name);
        let res: R<(String, usize)> = (|| {
            let src = std::fs::read_to_string(&path).map_err(|e| format!("missing: cannot read {}: {}", t.file, e))?;
            let file = parse_file(&src).map_err(|e| format!("unsupported: the file does not parse: {}", e))?;
            let (sig, block, line) = find_fn(&file, t).ok_or(format!("missing: no `{}` in {}", t.func, t.file))?;
            for d in t.deps { if !okset.contains(d) { return Err(format!("unsupported: depends on `{}`, which was not translated", d)); } }
            if t.name == "cut_str" {
                // the expansion of write_maybe_as_json! is built into the translator: refuse the function if the macro is not the one it was written for
                let mac = file.items.iter().find_map(|it| match it { Item::Macro(m) if m.ident.as_ref().map_or(false, |i| i == "write_maybe_as_json") => Some(m.mac.tokens.to_string().split_whitespace().collect::<String>()), _ => None });
                if std::env::var("RS2COQ_SHOW_MACRO").is_ok() { eprintln!("{}", mac.clone().unwrap_or_default()); }
                if mac.as_deref() != Some(WRITE_MAYBE_AS_JSON) { return Err("unsupported: the macro write_maybe_as_json! is not the one the translator expands".into()); }
            }
            let (def, rty) = translate(t, sig, block, &ret_tys).map_err(|e| format!("unsupported: {}", e))?;
            ret_tys.insert(format!("gen_{}", t.name), rty);
            Ok((def, line))
        })();
        let (st, detail, line) = match res {
            Ok((def, line)) => {
                let mut text = String::new();
                writeln!(text, "(* GENERATED by /verif/translator (rs2coq) from {} : {}{} -- do not edit;", t.file,
                         t.impl_self.map_or(String::new(), |s| format!("impl {}{} :: ", t.impl_trait.map_or(String::new(), |x| format!("{} for ", x)), s)), t.func).unwrap();
                writeln!(text, "   regenerated from the working tree of the repository by every check. *)").unwrap();
                writeln!(text, "From Coq Require Import ZArith Bool List.").unwrap();
                writeln!(text, "From TucModel Require Import Base.Bytes Model.Bounds Tie.RsPrelude.").unwrap();
                for d in t.deps { writeln!(text, "From TucModel Require Import Tie.Gen_{}.", d).unwrap(); }
                if !t.imports.is_empty() { writeln!(text, "From TucModel Require Import {}.", t.imports).unwrap(); }
                writeln!(text, "Import ListNotations.\nLocal Open Scope Z_scope.\n").unwrap();
                text.push_str(&def);
                let old = std::fs::read_to_string(&outfile).unwrap_or_default();
                if old != text { std::fs::write(&outfile, text).unwrap(); }
                okset.push(t.name);
                ("ok".to_string(), String::new(), line)
            }
            Err(e) => {
                let _ = std::fs::remove_file(&outfile);
                let (s, d) = e.split_once(": ").map(|(a, b)| (a.to_string(), b.to_string())).unwrap_or(("unsupported".into(), e.clone()));
                (s, d, 0)
            }
        };
        writeln!(status, "  \"{}\": {{\"status\": \"{}\", \"detail\": \"{}\", \"source\": \"{}:{}\"}}{}", t.name, st,
                 detail.replace('\\', "\\\\").replace('"', "'").replace('\n', " "), t.file, line, if n + 1 < TARGETS.len() { "," } else { "" }).unwrap();
    }
    status.push_str("}\n");
    std::fs::write(format!("{}/status.json", out), status).unwrap();
}
