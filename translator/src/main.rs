fn main(){}
