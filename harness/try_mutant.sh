#!/bin/sh
# try_mutant.sh <patch.diff> <command...> : apply the patch to /repo, run the command, always revert.
patch="$1"; shift
git -C /repo apply "$patch" || exit 2
"$@"; rc=$?
git -C /repo checkout -- . 
exit $rc
