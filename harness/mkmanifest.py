#!/usr/bin/env python3
"""Write /verif/MANIFEST.json from the property registry (authoring helper; the result is committed)."""
import json, os, re, sys
sys.path.insert(0, os.path.dirname(os.path.abspath(__file__)))
import props
V = os.path.dirname(os.path.dirname(os.path.abspath(__file__)))

LEVEL = {
 "C01": ("proof", "Theorems (Coq, axiom-free) for every non-empty literal delimiter, self-overlapping ones included: the byte ranges of fill_with_fields_locations cut a record into the leftmost non-overlapping fields of the statement, and that cutting is unique; -g yields those fields minus the empty ones strictly inside; -p rewrites the record to those same fields joined by single delimiters and cutting it gives them back; -t removes whole copies of the delimiter at the chosen end and nothing else; -s drops exactly the records without a delimiter; the general path is trim, stage (compress / split plain or greedy), finish (-s, complement, output loop, EOL), and the staged fields are the fields of the statement for every combination of -p and -g; under plain options (one-byte delimiter) the whole output record is proved equal to the requested fields in request order with fillers, fallbacks, -j and -r. The output loop under -g/-p/multi-byte delimiters is the executable model (index-safe by C12), compared with the code on every run incl. small-alphabet collisions."),
 "C02": ("proof", "Theorem C02_fast_lane_equals_general_path: for every fast-eligible option set, every bounds list the parser can build and every input, the model of the fast lane and the model of the general path give the same stdout, status and completed records (early stop, fake end-of-line start, -s, trim, fallbacks included). Tied to the code by running both library entry points and the binary against the models, plus the pair oracle on the implementation."),
 "C03": ("proof", "Theorem C03_fixed_memory_equals_line_mode (Coq, axiom-free): for every option set -M accepts, every bounds list built from parsed bounds, and every input on whose records each closed range is wholly present or wholly absent, the model of -M gives exactly the stdout, status and completed records of the model of the same invocation without -M (empty records, empty first/last fields, final record without EOL included); the static part of the domain is proved to follow from -M's own eligibility test. Tied to the code by correspondence of both paths and by the pair oracle (-M vs no -M) on the implementation, incl. inputs straddling the 64 KiB buffer."),
 "C04": ("proof", "Theorem C04_segmentation_independence: for every -M option set, every input and every two segmentations into non-empty reads, the model writes the same bytes and ends with the same status; the side condition holds for every parsed bounds list. Tied to the code through a BufRead double serving prescribed segmentations (all segmentations of short inputs) and through a read(2) shim on the real binary."),
 "C05": ("proof", "Theorems (Coq, axiom-free): records eol I = split on EOL minus the empty piece after a final EOL; the buffered algorithm indexes exactly those lines for every non-empty input; the forward reader's walk prints exactly the selected lines for every ascending bounds list and fails exactly on an unresolvable bound without fallback (C05_forward); on every input both algorithms print the same (C05_buffered_same). Tied to the code by correspondence of both algorithms with the model and by the forward-vs-buffered pair oracle on the implementation, incl. inputs larger than the 64 KiB read buffer."),
 "C06": ("proof", "Theorem C06_byte_mode_exact: for every input, every resolvable bounds list and any format text the model prints exactly the bytes at the selected positions in request order and nothing else; empty input gives empty output."),
 "C07": ("proof", "Proved: on every valid UTF-8 record the fields character mode indexes are exactly its scalar encodings, whole and in order. Assumed and exercised, not proved: the regex crate's \\b|\\B matches at exactly the scalar boundaries."),
 "C08": ("proof", "Theorems (Coq, axiom-free): every element the JSON writer emits is read back by a strict reader as exactly the part's text (all escapes, control bytes by kernel enumeration); the line printed for a record is read back by a strict one-pass array reader as exactly the list of parts (C08_array_roundtrip); with the settings --json installs, for every parsed bounds list without format text (also complemented) and every record, the general path prints nothing (-s), a bare EOL (record empty, possibly after -t) or exactly one array whose elements are, bound by bound, one string per part of a range and one for a fallback (C08_one_element_per_part, C08_record_is_one_array). UTF-8 validity is a premise inside the model (invalid text fails the record). Tied to the code by correspondence on every case and by Python's strict json.loads on every output line."),
 "C09": ("proof", "Theorems: rewriting any subset of in-range negative indexes to n+1-k leaves try_into_range, range expansion, complement, the whole of byte mode and the output loops of the general path and of the fast lane unchanged. Path switches caused by the rewriting are covered by C02/C05 and by the pair oracle on the implementation."),
 "C10": ("proof", "Theorems (Coq, axiom-free): on the general path (also -c, --json, -e), the fast lane and -M, the run over (A ++ EOL) ++ B equals the run over A ++ EOL followed by the run over B, status and failure prefix included; for -M this is derived from C10_fixed_memory_is_per_record (the fixed-memory reader is one per-record function mapped over the records; pending bound, field counter, truncation flag and early-stop state are reset) and holds under every chunking of the three inputs (with C04). That the code's reused scratch buffers do not leak between records is what the correspondence check and the triple oracle (A, B, A||B on the implementation, -M also under segmentations) test."),
 "C11": ("proof", "Proved: record splitting, field locations (plain and greedy), trimming and -p commute with every injective renaming of bytes, in particular with exchanging LF and NUL; CR is like any other byte. The whole-run statement is checked by the pair oracle (ARGS on I) vs (-z ARGS on swap(I)) on the implementation for every record/line mode."),
 "C12": ("proof", "Proved: the literal splitters yield well-formed matches for every delimiter (the empty one included), the index sites of the general path and of the fast lane cannot go out of range, range expansion is bounded by the number of parts. Every loop of the model is structural or fuelled by the input length. The run checks exit status 0/1 on bounded-exhaustive and adversarial argv x stdin, debug and release builds."),
 "C13": ("proof", "Theorems, one per path (general incl. --json/-c after range expansion, fast, -b, -l one line at a time, -M): an unresolvable bound yields its own fallback, else the generic one, else failure; a resolvable bound never consults a fallback; range expansion keeps an unresolvable bound intact."),
 "C14": ("proof", "PARTIAL. Theorems about the I/O envelope model of main() (one buffered stdout, flushed with the error propagated on every branch) and about record iteration: delivered bytes are a prefix, status 0 means everything was delivered and nothing failed, a failing record leaves earlier records complete. Runtime facts (signals, pipes, EINTR) are exercised through a fault-injection shim at every byte position, not proved."),
 "C15": ("proof", "Theorems: the complement of a resolved bound is the non-empty ones among [0,s) and [e,n), in that order, without fallbacks; they select the parts before followed by the parts after; all-covering bounds are rejected. Tied by pairs (-m vs the equivalent explicit request) on the implementation."),
 "C16": ("proof", "Theorems about the modelled regex family: matches are sorted, non-overlapping, non-empty, in range; fields and matches tile the record (plain and -g); the output loop cannot index out of range; -r text is inserted literally. That the regex crate computes the same matches on this family is what the run checks."),
 "C17": ("proof", "PARTIAL. Theorems about an accounting model: the fixed-memory machine's pending items only shrink and its account is independent of the input; the record paths' account is linear in the record. The run measures peak RSS of the real binary while the input grows 64x along the dimension each bound must not depend on."),
 "C18": ("proof", "Theorems (Coq, axiom-free): a single bound is accepted iff it belongs to a grammar written from the documentation (N, N:M, N:, :M; optional sign, non-zero 32-bit integers, same-sign ranges not decreasing, optional =fallback that may hold : and =), and the bound built is the one the grammar assigns (C18_bound_accepted_iff); a list without format text is accepted iff it is a comma-separated list of such bounds (C18_list_accepted_iff, C18_list_structure); accepted lists have no zero index; rejection yields status 1 and no output whatever the input; plain filler text is reproduced byte for byte. For format strings the accept/reject decision and the rendering are the executable model of the scanner, compared with the code exhaustively over the statement's alphabet up to length 4 (5 in the brace alphabet; longer in thorough) plus random longer strings, including the parsed structure."),
 "C19": ("proof", "Theorem C19_decision_table: for every one of the 30720 abstract option sets the model of parse_args plus the -M eligibility test decides as the statement says (finite domain, computed inside the kernel, bound in the statement); -M eligibility characterised; regex+join/-p without replacement fails every record. Tied by option subsets and reorderings on the real binary."),
}

checks = []
for pid in sorted(props.PROPS):
    cat, text = LEVEL[pid]
    checks.append({
        "property_id": pid,
        "quick_cmd": "./check %s quick" % pid,
        "thorough_cmd": "./check %s thorough" % pid,
        "evidence_file": "/verif/evidence/%s.json" % pid,
        "replay_cmd_template": "./check --replay {path}",
        "engine": "coq-model+correspondence",
        "level_claimed": {"category": cat, "text": text, "design_ref": "DESIGN.md section 3, %s" % pid},
        "level_note": "Trusted: Coq 8.16.1 kernel (vm_compute in C08/C19 only); no axioms; extraction (ExtrOcamlBasic) and the OCaml driver; "
                      "the correspondence check (sampling: generators, Rust harness, LD_PRELOAD shim); library behaviour as modelled "
                      "(bstr, memchr, regex, serde_json, pico-args, std). " + "; ".join(props.PROPS[pid].get("assumptions", [])),
        "technique": "Coq proof over hand-written executable model + differential correspondence check (extracted model vs binary/library)"
                     + (" + relational oracle on the implementation" if props.PROPS[pid].get("oracle") else ""),
    })
m = {
    "version": 1,
    "setup_cmd": "./setup.sh",
    "hooks": {"guard": "tuc_verif", "enable": "no source hooks: the checks use only pub items of the tuc library and an LD_PRELOAD shim",
              "baseline_off_cmd": "cd /repo && cargo test --workspace --no-fail-fast --offline", "source_commits": [], "add_only": True},
    "engines": [{"name": "coq-model+correspondence", "path": "/verif/coq", "serves_properties": sorted(props.PROPS),
                 "kind_free_text": "hand-written executable Gallina model of tuc + theorems (Coq 8.16.1, stdlib only, axiom-free), extracted to OCaml "
                                   "and compared on every run with the freshly built binary and library on generated cases"}],
    "checks": checks,
    "not_applicable": [],
    "notes": "Genuine defects repaired by unguarded 'fix:' commits in /repo are listed in known_findings.jsonl (status fixed); "
             "one recorded finding (line mode on a blank input). Seeded changes and what catches them: seeded/ and DESIGN.md.",
}
json.dump(m, open(os.path.join(V, "MANIFEST.json"), "w"), indent=1)
print("wrote MANIFEST.json with", len(checks), "checks")
