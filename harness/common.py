"""Shared machinery: builds, runners (model / CLI / lib / shim), comparison, evidence."""
import hashlib
import json
import os
import subprocess
import sys
import time

VERIF = os.path.dirname(os.path.dirname(os.path.abspath(__file__)))
REPO = os.environ.get("TUC_REPO", "/repo")
BUILD = os.path.join(VERIF, ".build")
COQ = os.path.join(VERIF, "coq")
ENV = dict(os.environ, CARGO_NET_OFFLINE="true", RUST_BACKTRACE="0")
JOBS = str(os.cpu_count() or 8)


def log(*a):
    print(*a, file=sys.stderr, flush=True)


def sh(cmd, cwd=None, timeout=3600, env=None, check=True, quiet=True):
    r = subprocess.run(cmd, cwd=cwd, env=env or ENV, stdout=subprocess.PIPE, stderr=subprocess.STDOUT,
                       timeout=timeout, shell=isinstance(cmd, str))
    out = r.stdout.decode("utf-8", "replace")
    if check and r.returncode != 0:
        raise BuildError("command failed (%s): %s\n%s" % (r.returncode, cmd, out[-4000:]))
    return r.returncode, out


class BuildError(Exception):
    pass


# ------------------------------------------------------------------ builds

def repo_tag():
    """A short tag identifying which repository path we build (so scratch copies
    used by the self-test never share a target dir with /repo)."""
    return hashlib.sha1(os.path.abspath(REPO).encode()).hexdigest()[:8]


def build_coq(targets=None):
    """Full (or per-target) .vo build with coq_makefile; returns the make log."""
    mk = os.path.join(COQ, "Makefile")
    if not os.path.exists(mk) or os.path.getmtime(mk) < os.path.getmtime(os.path.join(COQ, "_CoqProject")):
        sh(["coq_makefile", "-f", "_CoqProject", "-o", "Makefile"], cwd=COQ)
    cmd = ["make", "-j" + JOBS] + (targets or [])
    rc, out = sh(["timeout", "3000"] + cmd, cwd=COQ, check=False, timeout=3100)
    return rc, out


def build_driver():
    """Extract the model and compile the OCaml driver (only when the model changed)."""
    d = os.path.join(BUILD, "ocaml")
    os.makedirs(d, exist_ok=True)
    stamp = os.path.join(d, "stamp")
    srcs = []
    for root, _, files in os.walk(os.path.join(COQ, "Model")):
        srcs += [os.path.join(root, f) for f in files if f.endswith(".v")]
    srcs += [os.path.join(COQ, "Base", "Bytes.v"), os.path.join(COQ, "Extract.v"),
             os.path.join(VERIF, "ocaml", "driver.ml")]
    h = hashlib.sha1()
    for s in sorted(srcs):
        h.update(open(s, "rb").read())
    dig = h.hexdigest()
    drv = os.path.join(d, "driver")
    if os.path.exists(drv) and os.path.exists(stamp) and open(stamp).read() == dig:
        return drv
    rc, out = build_coq(["Model/Entries.vo"])
    if rc != 0:
        raise BuildError("coq model build failed:\n" + out[-3000:])
    sh(["coqc", "-Q", COQ, "TucModel", os.path.join(COQ, "Extract.v")], cwd=d)
    for f in ("Extract.vo", "Extract.glob", ".Extract.aux", "Extract.vok", "Extract.vos"):
        p = os.path.join(COQ, f)
        if os.path.exists(p):
            os.remove(p)
    sh("cp %s/ocaml/driver.ml . && ocamlfind ocamlopt -w -a model.mli model.ml driver.ml -o driver" % VERIF, cwd=d)
    open(stamp, "w").write(dig)
    return drv


def build_tuc(profile="debug"):
    tdir = os.path.join(BUILD, "target-tuc-" + repo_tag())
    cmd = ["cargo", "build", "--offline", "--manifest-path", os.path.join(REPO, "Cargo.toml"),
           "--target-dir", tdir]
    if profile == "release":
        cmd.append("--release")
    sh(cmd, timeout=1800)
    return os.path.join(tdir, profile, "tuc")


def build_harness(lib=True):
    """the Rust harness; lib=False builds the CLI-only variant (no dependency on the tuc library)"""
    tag = "hrs-" + repo_tag() + ("" if lib else "-cli")
    d = os.path.join(BUILD, tag)
    os.makedirs(d, exist_ok=True)
    toml = """[package]
name = "harness"
version = "0.1.0"
edition = "2018"

[workspace]

[[bin]]
name = "harness"
path = "%s/harness-rs/src/main.rs"

[features]
default = [%s]
lib = ["tuc", "regex"]

[dependencies]
tuc = { path = "%s", optional = true }
regex = { version = "1.11", default-features = false, features = ["std", "unicode-bool", "unicode-perl", "unicode-gencat"], optional = true }
""" % (VERIF, '"lib"' if lib else "", os.path.abspath(REPO))
    p = os.path.join(d, "Cargo.toml")
    if not os.path.exists(p) or open(p).read() != toml:
        open(p, "w").write(toml)
    lock = os.path.join(d, "Cargo.lock")
    if not os.path.exists(lock):
        sh(["cp", os.path.join(REPO, "Cargo.lock"), lock])
    tdir = os.path.join(BUILD, "target-" + tag)
    sh(["cargo", "build", "--offline", "--manifest-path", p, "--target-dir", tdir], timeout=1800)
    return os.path.join(tdir, "debug", "harness")


def build_shim():
    so = os.path.join(BUILD, "faultio.so")
    src = os.path.join(VERIF, "shim", "faultio.c")
    if not os.path.exists(so) or os.path.getmtime(so) < os.path.getmtime(src):
        os.makedirs(BUILD, exist_ok=True)
        sh(["gcc", "-O2", "-shared", "-fPIC", "-o", so, src, "-ldl"])
    return so


# ------------------------------------------------------------------ cases

def hx(b):
    return b.hex() if b else "-"


def unhx(s):
    return b"" if s in ("-", "_") else bytes.fromhex(s)


class Case:
    __slots__ = ("id", "entry", "argv", "stdin", "seg", "extra", "tags")

    def __init__(self, argv, stdin, entry="main", seg=None, extra=None, tags=None):
        self.id = None
        self.entry = entry
        self.argv = [a if isinstance(a, bytes) else a.encode() for a in argv]
        self.stdin = stdin
        self.seg = seg or []
        self.extra = extra or {}
        self.tags = tags or {}

    def key(self):
        return (self.entry, tuple(self.argv), self.stdin, tuple(self.seg), tuple(sorted(self.extra.items())))

    def line(self):
        argv = ",".join((a.hex() if a else "_") for a in self.argv) if self.argv else "-"
        seg = ",".join(str(x) for x in self.seg) if self.seg else "-"
        extra = ",".join("%s=%s" % kv for kv in sorted(self.extra.items())) if self.extra else "-"
        return "%s %s %s %s %s %s" % (self.id, self.entry, argv, hx(self.stdin), seg, extra)

    def to_json(self):
        return {"entry": self.entry, "argv": [a.decode("utf-8", "backslashreplace") for a in self.argv],
                "argv_hex": [a.hex() for a in self.argv], "stdin_hex": self.stdin.hex(),
                "stdin": self.stdin.decode("utf-8", "backslashreplace"), "seg": self.seg, "extra": self.extra}

    def shell(self, tuc="tuc"):
        def q(b):
            return "$'" + "".join(("\\x%02x" % c) if (c < 32 or c > 126 or c in b"'\\") else chr(c) for c in b) + "'"
        return "printf %%s %s | %s %s" % (q(self.stdin), tuc, " ".join(q(a) for a in self.argv))


def number(cases):
    for i, c in enumerate(cases):
        c.id = str(i)
    return cases


def dedup(cases):
    seen = set()
    out = []
    for c in cases:
        k = c.key()
        if k not in seen:
            seen.add(k)
            out.append(c)
    return out


def _run_lines(cmd, cases, env=None, timeout=3600):
    inp = "\n".join(c.line() for c in cases) + "\n"
    r = subprocess.run(cmd, input=inp.encode(), stdout=subprocess.PIPE, stderr=subprocess.PIPE, env=env or ENV,
                       timeout=timeout)
    res = {}
    for l in r.stdout.decode().splitlines():
        f = l.split(" ")
        if len(f) == 3:
            res[f[0]] = (f[1], unhx(f[2]))
    if r.returncode != 0 and len(res) < len(cases):
        log("runner exited with", r.returncode, r.stderr.decode()[-500:])
    return res


def run_model(driver, cases):
    """Evaluate the extracted model, sharded over the cores."""
    n = len(cases)
    if n == 0:
        return {}
    shards = min(int(JOBS), max(1, n // 200))
    procs = []
    for s in range(shards):
        part = cases[s::shards]
        inp = ("\n".join(c.line() for c in part) + "\n").encode()
        p = subprocess.Popen(["bash", "-c", "ulimit -s unlimited 2>/dev/null; exec " + driver], stdin=subprocess.PIPE,
                             stdout=subprocess.PIPE, stderr=subprocess.DEVNULL)
        procs.append((p, inp))
    res = {}
    # feed all, then collect (inputs are small enough for pipe buffers thanks to threads)
    import threading

    def feed(p, inp, store):
        out, _ = p.communicate(inp)
        store.append(out)
    stores = []
    ths = []
    for p, inp in procs:
        st = []
        stores.append(st)
        t = threading.Thread(target=feed, args=(p, inp, st))
        t.start()
        ths.append(t)
    for t in ths:
        t.join()
    for st in stores:
        for l in st[0].decode().splitlines():
            f = l.split(" ")
            if len(f) == 3:
                res[f[0]] = (f[1], unhx(f[2]))
    return res


def run_cli(harness, tuc, cases, shim=None, timeout_ms=10000):
    env = dict(ENV, HARNESS_TIMEOUT_MS=str(timeout_ms))
    cmd = [harness, "cli", tuc] + ([shim] if shim else [])
    return _run_lines(cmd, cases, env=env)


def run_lib(harness, cases):
    return _run_lines([harness, "lib"], cases)


# ------------------------------------------------------------------ comparison

def agree(model, impl):
    """model/impl: (class, bytes).  Returns (ok, reason).  Only the observables the
    properties constrain are compared: exit class, and stdout (whole on success, the
    completed-records prefix on failure)."""
    mc, mo = model
    ic, io = impl
    if mc == "unknown":
        return True, "unknown"
    if mc == "info":
        return (ic == "0"), "info"
    if mc == "0":
        if ic != "0":
            return False, "exit class %s, model says 0" % ic
        if io != mo:
            return False, "stdout differs"
        return True, ""
    if mc == "1":
        if ic != "1":
            return False, "exit class %s, model says 1" % ic
        if not io.startswith(mo):
            return False, "failing run lost or altered the output of completed records"
        return True, ""
    # the model itself says panic / hang
    return (ic not in ("0", "1")), "model=%s" % mc


# ------------------------------------------------------------------ evidence & findings

def load_findings():
    p = os.path.join(VERIF, "known_findings.jsonl")
    out = []
    if os.path.exists(p):
        for l in open(p):
            l = l.strip()
            if l:
                out.append(json.loads(l))
    return out


def write_replay(prop, payload):
    d = os.path.join(VERIF, "replays")
    os.makedirs(d, exist_ok=True)
    s = json.dumps(payload, indent=1, sort_keys=True)
    h = hashlib.sha1(s.encode()).hexdigest()[:12]
    p = os.path.join(d, "%s-%s.json" % (prop, h))
    open(p, "w").write(s)
    return p


def write_evidence(prop, tier, seed, coverage, assumptions, wall, violations):
    d = os.path.join(VERIF, "evidence")
    os.makedirs(d, exist_ok=True)
    ev = {"property_id": prop, "tier": tier, "seed": seed, "level": "proof", "coverage": coverage,
          "assumptions": assumptions, "wall_s": round(wall, 2), "violations": violations}
    open(os.path.join(d, prop + ".json"), "w").write(json.dumps(ev, indent=1))


# ------------------------------------------------------------------ extraction self-check
def kernel_recheck(cases, model, limit=60):
    """Re-validate a sample of the extracted model's results inside Coq: for each sampled case of
    entry `main`, an `Example` stating  run_main argv stdin = <what the OCaml driver printed>  is
    closed by vm_compute + reflexivity.  Guards the extraction, the OCaml compiler and the driver
    glue (hex decoding, number conversion).  Returns (checked, error-or-None)."""
    def nlist(b):
        return "[" + ";".join("%d" % x for x in b) + "]%N"
    picked = [c for c in cases if c.entry == "main" and not c.seg and not c.extra and c.id in model
              and len(c.stdin) <= 48 and sum(len(a) for a in c.argv) <= 48][:limit]
    if not picked:
        return 0, None
    lines = ["From TucModel Require Import Base.Bytes Model.Bounds Model.Args Model.Main.", ""]
    for i, c in enumerate(picked):
        cls, out = model[c.id]
        rhs = {"0": "MOut (Done %s)" % nlist(out), "1": "MOut (Fail %s)" % nlist(out), "panic": "MOut Panic",
               "hang": "MOut Hang", "info": "MInfo", "unknown": "MUnknown"}[cls]
        argv = "[" + ";".join(nlist(a) for a in c.argv) + "]"
        lines.append("Example k%d : run_main %s %s = %s.\nProof. vm_compute. reflexivity. Qed." % (i, argv, nlist(c.stdin), rhs))
    d = os.path.join(BUILD, "kernel-recheck")
    os.makedirs(d, exist_ok=True)
    f = os.path.join(d, "recheck_%d.v" % os.getpid())
    open(f, "w").write("\n".join(lines) + "\n")
    rc, out = sh(["timeout", "900", "coqc", "-Q", COQ, "TucModel", f], cwd=d, check=False)
    for ext in (".v", ".vo", ".glob", ".vok", ".vos"):
        q = f[:-2] + ext
        if os.path.exists(q):
            os.remove(q)
    return len(picked), (None if rc == 0 else out[-1500:])
