"""Per-property registry: generator, domain, oracle, theorems, assumptions."""
import json
import os
import families as F
from common import Case, VERIF

TRUSTED = [
    "Coq 8.16.1 kernel (coqc), including vm_compute where a proof script uses it; no native_compute",
    "axioms: none (every pinned theorem prints 'Closed under the global context'); none declared by the development",
    "extraction: ExtrOcamlBasic only (bool, option, unit, list, prod, sumbool to OCaml's; Extract Inlined Constant "
    "for fst/snd/andb/orb/negb as shipped); N, Z, nat stay the extracted inductives; OCaml 4.13.1; ocaml/driver.ml",
    "correspondence check (differential testing of the extracted model against the real binary and the tuc library): "
    "harness/*.py, harness-rs/src/main.rs, shim/faultio.c; its strength is bounded by the generators",
    "translation tie: translator/src/main.rs (rs2coq, built on syn 2): maps the Rust subset of the 40 translated functions "
    "(DESIGN.md section 2.6b) to Gallina in a result monad (checked i32/usize arithmetic = debug-build semantics, wrapping `as` "
    "casts, match arms in order with guards, bail!/return/? as early exits, Result/Option as option with the error message dropped, "
    "loops as folds or on fuel, writers as accumulators, scratch vectors as state, the default cargo features); coq/Tie/Rs*.v are "
    "its hand-written target libraries, including the hybrids: model functions standing for callees that are not translated (bstr, "
    "memchr, regex, serde_json, std readers, From<Vec<BoundOrFiller>>, the greedy literal splitter)",
    "modelled, not verified: bstr (find_iter leftmost non-overlapping, for_byte_record), memchr, regex (mini-family, "
    "leftmost-first; \\b|\\B = every scalar boundary of valid UTF-8), serde_json::to_string escape table, pico-args 0.5, "
    "std BufReader/BufWriter/read_line/read_until/from_utf8/i32::from_str",
]


def corpus_cases(prop):
    p = os.path.join(VERIF, "corpus", prop + ".jsonl")
    out = []
    if os.path.exists(p):
        for l in open(p):
            l = l.strip()
            if not l:
                continue
            j = json.loads(l)
            out.append(Case([bytes.fromhex(a) for a in j["argv_hex"]], bytes.fromhex(j["stdin_hex"]),
                            entry=j.get("entry", "main"), seg=j.get("seg"), extra=j.get("extra"), tags=j.get("tags")))
    return out


def segmented_twins(rng, gen, frac=0.125):
    out = []
    for c in gen:
        if c.entry != "main" or c.seg or c.extra or len(c.stdin) < 2 or rng.random() >= frac:
            continue
        k = len(c.stdin)
        if k <= 64:
            seg = F._rand_seg(rng, k)
        else:
            seg = [rng.choice([1, 2, 3, 100, 4096, 65535, 65537])] + [rng.choice([5, 4096, 65536, 70000])] * 8
        tags = {t: v for t, v in c.tags.items() if t in ("nomodel", "expect", "expect_json")}
        out.append(Case(c.argv, c.stdin, seg=seg, tags=dict(tags, twin=True)))
    return out


def always(c, m):
    return True


PROPS = {}

# ------------------------------------------------------------------ C06
def oracle_expect(cases, impl, ctx):
    n, bad = 0, []
    for c in cases:
        if c.tags.get("expect") is None:
            continue
        r = impl.get(c.id)
        if r is None:
            continue
        n += 1
        if r[0] != "0" or r[1] != c.tags["expect"]:
            k = next((i for i, (x, y) in enumerate(zip(r[1], c.tags["expect"])) if x != y), min(len(r[1]), len(c.tags["expect"])))
            bad.append(("output differs from the bytes the statement selects (large input)",
                        {"why": "large input", "argv": [a.decode() for a in c.argv], "stdin_len": len(c.stdin), "status": r[0],
                         "stdout_len": len(r[1]), "expected_len": len(c.tags["expect"]), "first_difference_at": k,
                         "_cases": [c]}))
    return n, bad


PROPS["C06"] = dict(
    oracle=oracle_expect,
    gen=lambda rng, n, tier: F.bytes_mode(rng, n) + F.c06_big(rng),
    budget=(9000, 60000),
    absolute=True,
    in_domain=always,
    nontrivial=lambda c, m: m[0] == "0" and len(m[1]) > 0,
    rule="-b with random bounds lists (positive/negative/open/ranges/format text/fallbacks) on inputs of 0..8 bytes "
         "drawn from all 256 byte values; distinct by (argv, stdin); non-trivial = the model prints at least one byte "
         "with status 0",
    theorems=["C06_byte_mode_exact", "C06_empty_input"],
    assumptions=["input shorter than 2^31 bytes (usize -> i32 cast in try_into_range)",
                 "the model of parse_args/parse_bounds_list/cut_bytes corresponds to the code (checked by this run)"],
)


# ------------------------------------------------------------------ relational oracles

def groups(cases, impl):
    g = {}
    for c in cases:
        if c.tags.get("grp") is not None and c.id in impl:
            g.setdefault(c.tags["grp"], {})[c.tags["role"]] = (c, impl[c.id])
    return g


def fail_payload(what, members):
    return (what, {"why": what, "_cases": [c for (c, r) in members.values()],
                   "runs": [dict(c.to_json(), role=role, observed={"class": r[0], "stdout_hex": r[1].hex()},
                                 reproduce=c.shell()) for role, (c, r) in members.items()]})


def oracle_same(role_a, role_b, what):
    def orc(cases, impl, ctx):
        n, bad = 0, []
        for gid, m in groups(cases, impl).items():
            if role_a in m and role_b in m:
                n += 1
                a, b = m[role_a][1], m[role_b][1]
                if a[0] != b[0] or (a[0] == "0" and a[1] != b[1]):
                    bad.append(fail_payload(what, m))
        return n, bad
    return orc


def oracle_c10(cases, impl, ctx):
    n, bad = 0, []
    model = ctx["model"]
    for gid, m in groups(cases, impl).items():
        if not all(k in m for k in ("A", "B", "AB")):
            continue
        (ca, a), (cb, b) = m["A"], m["B"]
        for role in ("AB", "AB_seg"):
            if role not in m:
                continue
            n += 1
            cab, ab = m[role]
            if a[0] == "0" and b[0] == "0":
                ok = ab[0] == "0" and ab[1] == a[1] + b[1]
            elif a[0] == "0":
                ok = ab[0] == b[0] and ab[1].startswith(a[1])
            else:
                ma = model.get(ca.id)
                pre = ma[1] if (ma and ma[0] == "1") else b""
                ok = ab[0] == a[0] and ab[1].startswith(pre)
            if not ok:
                bad.append(fail_payload("output for A followed by B%s is not the output for A followed by the output for B"
                                        % (" (arriving in pieces)" if role == "AB_seg" else ""),
                                        {k: v for k, v in m.items() if k in ("A", "B", role)}))
    return n, bad


def oracle_c15(cases, impl, ctx):
    n, bad = 0, []
    for gid, m in groups(cases, impl).items():
        if "complement" not in m:
            continue
        c, r = m["complement"]
        n += 1
        if c.tags.get("empty"):
            if r[0] != "1":
                bad.append(fail_payload("bounds leave nothing out but the run did not fail", m))
        elif "equivalent" in m:
            e = m["equivalent"][1]
            if r[0] != e[0] or (r[0] == "0" and r[1] != e[1]):
                bad.append(fail_payload("-m output differs from the equivalent explicit request", m))
    return n, bad


PROPS["C09"] = dict(
    gen=lambda rng, n, tier: F.c09(rng, n),
    budget=(9000, 60000),
    absolute=False,
    in_domain=always,
    nontrivial=lambda c, m: c.tags.get("role") == "mirrored" and m[0] == "0",
    oracle=lambda cases, impl, ctx: oracle_all_same("mirrored", "rewriting -k as n+1-k changed the output")(cases, impl, ctx),
    rule="pairs of invocations (modes -f/-c/-b/-l, with -j/-r/--json/-m/--no-join/-z/fallbacks) on inputs whose "
         "records all have n parts, the second with a random subset of the in-range negative indexes rewritten to "
         "n+1-k; each run compared with the model, the pair compared on the implementation; non-trivial = the "
         "rewritten request succeeds",
    theorems=["C09_range_unchanged", "C09_unpack_unchanged", "C09_complement_unchanged", "C09_byte_mode",
              "C09_field_mode_general", "C09_field_mode_fast", "C09_minus_one_is_last", "C09_minus_n_is_first"],
    assumptions=["n < 2^31", "path switching caused by the rewriting (early stop, forward-only line reader) is "
                 "covered by the pair oracle and by C02/C05, not by C09's theorems alone"],
)

PROPS["C10"] = dict(
    gen=lambda rng, n, tier: F.c10(rng, n) + F.c10_big(rng),
    budget=(9000, 60000),
    absolute=False,
    in_domain=always,
    nontrivial=lambda c, m: c.tags.get("role") == "AB" and len(m[1]) > 0,
    oracle=oracle_c10,
    rule="triples (A, B, A||B), A ending with the EOL, records of different field counts, empty records, failing "
         "records, on the general path (-g/-p/-r/-m, multi-byte delimiters), the fast lane, -c, --json, -e and -M; "
         "non-trivial = the concatenated run delivers output",
    theorems=["C10_general_path", "C10_fast_path", "C10_failure_is_preserved", "C10_failure_is_preserved_fast",
              "C10_fixed_memory_is_per_record", "C10_fixed_memory", "C10_fixed_memory_any_chunking",
              "C10_failure_is_preserved_fixed_memory"],
    assumptions=["the model cuts each record with a function of that record alone (scratch buffers are not "
                 "modelled); that the code's reused buffers do not leak between records is what the "
                 "correspondence check and the triple oracle test"],
)

PROPS["C13"] = dict(
    gen=lambda rng, n, tier: F.field_lattice(rng) + F.field_lattice(rng, "c") + F.field_lattice(rng, "l") + F.c13(rng, n),
    budget=(12000, 80000),
    absolute=True,
    in_domain=always,
    nontrivial=lambda c, m: True,
    rule="every mode and path (general, fast, --json, -c, -b, -l forward/buffered, -M incl. segmentations through "
         "the library) with bounds overshooting in either direction on either side, with own/generic/both/no "
         "fallback; every case compared with the model",
    theorems=["C13_unresolvable_iff", "C13_byte_mode", "C13_general_path", "C13_range_expansion_keeps_unresolvable",
              "C13_range_expansion_of_resolvable", "C13_fast_path", "C13_resolvable_ignores_fallbacks_general",
              "C13_resolvable_ignores_fallbacks_fast", "C13_resolvable_ignores_fallbacks_bytes",
              "C13_lines_one_at_a_time", "C13_lines_straddling_range_fails", "C13_fixed_memory"],
    assumptions=["mixed-sign ranges that resolve to an empty interval are outside the statement (Unspecified_C13)", "a closed range that straddles the end of a record under -M "
                 "prints the fields it has, then its fallback or fails (a fixed-memory reader cannot retract)"],
)

PROPS["C15"] = dict(
    gen=lambda rng, n, tier: [c for c in F.field_lattice(rng) + F.field_lattice(rng, "c") + F.field_lattice(rng, "l") if b"-m" in c.argv]
                             + F.c15(rng, (2 * n) // 3) + F.c15_varied(rng, n // 3),
    budget=(9000, 60000),
    absolute=True,
    in_domain=always,
    nontrivial=lambda c, m: c.tags.get("role") == "complement",
    oracle=oracle_c15,
    rule="pairs: -m with bounds resolvable on inputs whose records all have n parts (-f with -j/-r/--json, -l) "
         "against the equivalent explicit request computed from the statement; all-covering bounds must fail; plus -m on "
         "multi-record inputs whose records have different numbers of fields (compared with the model); "
         "non-trivial = the -m member of a pair",
    theorems=["C15_complement_of_a_bound", "C15_selected_parts", "C15_nothing_left_out_fails"],
    assumptions=["n < 2^31"],
)


# ------------------------------------------------------------------ known-finding classes
# A listed finding names one of these predicates; a failing case counts as listed only if it
# is in the class AND the finding's own witness still reproduces (checked on every run).

def kf_lines_blank_input(c):
    """line mode on an input that is empty or a single EOL"""
    eol = b"\0" if b"-z" in c.argv else b"\n"
    return b"-l" in c.argv and c.stdin in (b"", eol)


def _valid_utf8(b):
    try:
        b.decode("utf-8")
        return True
    except UnicodeDecodeError:
        return False


def kf_lines_invalid_utf8(c):
    """line mode on an input that is not valid UTF-8"""
    return b"-l" in c.argv and not _valid_utf8(c.stdin)


KF_CLASSES = {"lines_blank_input": kf_lines_blank_input, "lines_invalid_utf8": kf_lines_invalid_utf8}


PROPS["C01"] = dict(
    gen=lambda rng, n, tier: (lambda cs: cs + F.with_default_bounds(rng, cs))(F.trim_overlap() + F.field_lattice(rng) + F.fields(rng, n) + F.small_scope(rng, maxlen=(4 if tier == "quick" else 6), sample=(20 if tier == "quick" else None))),
    budget=(15000, 100000),
    absolute=True,
    in_domain=always,
    nontrivial=lambda c, m: m[0] == "0" and len(m[1]) > 1,
    release=True,
    rule="-f on the general path and the fast lane: delimiters of 1..3 bytes incl. self-overlapping ('--', 'aba') and "
         "multi-byte UTF-8, random bounds lists (positive/negative/open/repeated/reordered/format text/fallbacks), the "
         "lattice {-g,-p,-t l|r|b,-s,-j,-r R,-m,-z,--fallback-oob}, records over small, textual, nasty (NUL, CR, "
         "0x80-0xFF) and full byte alphabets, 0..4 records with/without final EOL; non-trivial = status 0 with output "
         "beyond a lone EOL",
    theorems=["C01_fields_locations_are_fields", "C01_offsets_equal_values", "C01_split_is_leftmost_nonoverlapping"],
    assumptions=["records with fewer than 2^31 fields", "proved: the splitting core; trim / -p / -g / -r / the output "
                 "loop are the executable model, tied to the code by this run's correspondence check"],
)


# ------------------------------------------------------------------ more oracles

def oracle_all_same(ref_role, what):
    def orc(cases, impl, ctx):
        n, bad = 0, []
        for gid, m in groups(cases, impl).items():
            if ref_role not in m:
                continue
            ref = m[ref_role][1]
            for role, (c, r) in m.items():
                if role == ref_role:
                    continue
                n += 1
                if r[0] != ref[0] or (ref[0] == "0" and r[1] != ref[1]):
                    bad.append(fail_payload(what, {ref_role: m[ref_role], role: (c, r)}))
        return n, bad
    return orc


def oracle_c04(cases, impl, ctx):
    n1, b1 = oracle_all_same("whole", "the output of -M depends on how the input is split into reads")(cases, impl, ctx)
    n2, b2 = oracle_same("cli_whole", "cli_seg", "the output of -M depends on how the input is split into reads (real binary)")(cases, impl, ctx)
    return n1 + n2, b1 + b2


def oracle_c08(cases, impl, ctx):
    import json as J
    n, bad = 0, []
    for c in cases:
        r = impl.get(c.id)
        if r and c.tags.get("expect_json") is not None:
            n += 1
            ok = r[0] == "0"
            if ok:
                lines = [l for l in r[1].split(b"\n") if l]
                try:
                    ok = [J.loads(l.decode("utf-8"), strict=True) for l in lines] == c.tags["expect_json"]
                except Exception:
                    ok = False
            if not ok:
                bad.append(("--json output does not decode to the selected parts (large field)",
                            {"why": "large field", "argv": [a.decode() for a in c.argv], "stdin_len": len(c.stdin),
                             "status": r[0], "stdout_head_hex": r[1][:80].hex(), "_cases": [c]}))
            continue
        if not r or r[0] != "0" or b"--json" not in c.argv:
            continue
        eol = b"\0" if b"-z" in c.argv else b"\n"
        for line in r[1].split(eol):
            if not line:
                continue
            n += 1
            try:
                v = J.loads(line.decode("utf-8"), strict=True)
                ok = isinstance(v, list) and all(isinstance(x, str) for x in v)
            except Exception:
                ok = False
            if not ok:
                bad.append(("an output line is not a JSON array of strings",
                            {"why": "not a JSON array of strings", "line_hex": line.hex(), "case": c.to_json(),
                             "reproduce": c.shell(), "_cases": [c]}))
                break
    return n, bad


def oracle_c11(cases, impl, ctx):
    sw = bytes.maketrans(b"\n\0", b"\0\n")
    n, bad = 0, []
    for gid, m in groups(cases, impl).items():
        if "lf" in m and "nul" in m:
            n += 1
            a, b = m["lf"][1], m["nul"][1]
            if a[0] != b[0] or (a[0] == "0" and b[1] != a[1].translate(sw)):
                bad.append(fail_payload("-z on the input with LF and NUL exchanged does not give the exchanged output", m))
    return n, bad


def oracle_c12(cases, impl, ctx):
    n, bad = 0, []
    for c in cases:
        r = impl.get(c.id)
        if r is None:
            continue
        n += 1
        if r[0] not in ("0", "1"):
            bad.append(("terminated with %s instead of status 0 or 1" % r[0],
                        {"why": "exit class %s" % r[0], "case": c.to_json(), "reproduce": c.shell(), "_cases": [c]}))
    return n, bad


def oracle_c14(cases, impl, ctx):
    n, bad = 0, []
    for gid, m in groups(cases, impl).items():
        if "A" in m and "AB_fail" in m:
            n += 1
            a, ab = m["A"][1], m["AB_fail"][1]
            if not (a[0] == "0" and ab[0] == "1" and ab[1].startswith(a[1])):
                bad.append(fail_payload("a failing record lost or altered the output of the earlier records, or was not reported", m))
            continue
        if "clean" not in m:
            continue
        clean = m["clean"][1]
        for role, (c, r) in m.items():
            if role == "clean":
                continue
            n += 1
            kind, k = c.tags["fault"]
            why = None
            if r[0] not in ("0", "1"):
                why = "an I/O fault ended the run with %s (panic / signal) instead of a plain non-zero status" % r[0]
            elif clean[0] == "0":
                if not clean[1].startswith(r[1]):
                    why = "what reached stdout is not a prefix of the fault-free output"
                elif r[0] == "0" and r[1] != clean[1]:
                    why = "an I/O fault turned into a successful exit with missing data"
                elif kind == "w" and k < len(clean[1]) and r[0] == "0":
                    why = "a failed write was swallowed"
                elif kind == "w" and len(r[1]) > k:
                    why = "more bytes delivered than the writer accepted"
            if why:
                bad.append(fail_payload(why, {"clean": m["clean"], role: (c, r)}))
    return n, bad


def oracle_c19(cases, impl, ctx):
    n, bad = oracle_same("order1", "order2", "the decision depends on the order of the options")(cases, impl, ctx)
    n2, bad2 = oracle_same("spelling1", "spelling2", "two spellings of the same options (long names, '=', attached "
                           "values, combined flags, another order) behave differently")(cases, impl, ctx)
    n, bad = n + n2, bad + bad2
    for c in cases:
        r = impl.get(c.id)
        if r and r[0] == "1" and r[1] and ctx["model"].get(c.id, ("", b""))[1] == b"" and ctx["model"].get(c.id, ("",))[0] == "1":
            pass
    return n, bad


def reg(pid, **kw):
    kw.setdefault("in_domain", always)
    kw.setdefault("nontrivial", lambda c, m: m[0] == "0" and len(m[1]) > 0)
    kw.setdefault("assumptions", [])
    PROPS[pid] = kw


reg("C02", gen=lambda rng, n, tier: F.c02(rng, n) + F.c02_big(rng), budget=(12000, 80000), absolute=False,
    oracle=lambda cases, impl, ctx: tuple(map(lambda a, b: a + b,
        oracle_same("general", "fast", "the fast lane and the general path disagree on the same options and input")(cases, impl, ctx),
        oracle_same("general", "cli", "the binary (fast lane, real 64 KiB reader) and the general path disagree")(cases, impl, ctx))),
    nontrivial=lambda c, m: c.entry == "fast" and m[0] == "0" and len(m[1]) > 1,
    rule="fast-eligible option sets (1-byte delimiter; bounds ascending/descending/repeated/negative/mixed/open/"
         "formatted/with fallbacks; -j -s -z -t, --fallback-oob) x records with more and fewer fields than the "
         "right-most bound: the same Opt through read_and_cut_text_as_bytes and read_and_cut_str in-process, and the "
         "real binary; non-trivial = a fast-lane run that prints data",
    theorems=["C02_fast_lane_equals_general_path", "C02_each_record", "C02_last_interesting_field_is_sound",
              "C02_early_stop_never_changes_a_range", "C02_parser_output_qualifies"], release=True,
    assumptions=["delimiter byte < 128 (a 1-byte -d from the command line is ASCII)", "records with < 2^31 fields"])

reg("C03", gen=lambda rng, n, tier: F.c03(rng, n) + F.c03_big(rng), budget=(9000, 60000), absolute=False,
    oracle=oracle_all_same("plain", "-M and the same invocation without -M disagree"),
    nontrivial=lambda c, m: c.tags.get("role") == "stream" and m[0] == "0" and len(m[1]) > 1,
    rule="-M-compatible option sets (1-byte delimiter, strictly ascending bounds incl. one trailing open range, "
         "-j, 1-byte -r, -z, own/generic fallbacks, format text) on inputs where every requested range is wholly "
         "present or wholly absent in every record: read_and_cut_bytes_stream in-process under a random segmentation, "
         "the real binary with -M, and the real binary without -M",
    theorems=[], assumptions=["ranges that straddle the end of a record are excluded by the statement"])

reg("C04", gen=lambda rng, n, tier: F.c04(rng, n, exhaustive_upto=(7 if tier == "quick" else 10)) + F.c04_big(rng),
    budget=(9000, 60000), absolute=False, oracle=oracle_c04,
    nontrivial=lambda c, m: len(c.seg) > 1,
    rule="-M on one input under several segmentations: every segmentation of inputs up to 7 bytes (quick; 10 thorough), "
         "byte-at-a-time plus random segmentations beyond, through a BufRead double in-process; the real binary through "
         "the read(2) shim; non-trivial = a run whose input arrives in more than one read",
    theorems=["C04_segmentation_independence", "C04_any_segmentation_equals_single_read",
              "C04_side_condition_always_holds", "C04_stream_items_are_the_parsed_bounds"], assumptions=["a read returns at least one byte unless the input is exhausted"])

reg("C05", gen=lambda rng, n, tier: F.field_lattice(rng, "l") + F.c05(rng, n) + F.c05_big(rng), budget=(9000, 60000), absolute=True,
    oracle=oracle_same("forward", "buffered", "the one-line-at-a-time reader and the whole-input reader disagree on equivalent requests"),
    rule="-l with forward and non-forward bounds lists, --no-join, -z, -m, fallbacks, empty lines, missing final EOL, "
         "invalid UTF-8; plus pairs of equivalent requests (ascending positive vs one index written negatively)",
    theorems=[], assumptions=["format text in -l is outside the statement"])

reg("C07", gen=lambda rng, n, tier: F.field_lattice(rng, "c") + F.c07(rng, n), budget=(9000, 60000), absolute=True,
    rule="-c on valid UTF-8 records with 1-4 byte scalars, combining marks, ZWJ, characters next to word boundaries, "
         "0/1/many characters per record, bounds incl. negative/open/format text, -z, --json, -m, fallbacks",
    theorems=[], assumptions=["regex's \\b|\\B yields an empty match at every scalar boundary of a valid UTF-8 haystack "
                              "(assumed; exercised by this run)"])

reg("C08", gen=lambda rng, n, tier: (lambda cs: cs + F.with_default_bounds(rng, cs, 0.15))([c for c in F.field_lattice(rng) + F.field_lattice(rng, "c") if b"--json" in c.argv] + F.c08(rng, n)) + F.c08_big(rng), budget=(9000, 60000), absolute=True, oracle=oracle_c08,
    rule="--json in -f and -c mode on valid UTF-8 with quotes, backslashes, U+0000-1F, U+007F, U+2028, astral "
         "characters; multi-byte delimiters, -g -p -t -s -m -z, fallbacks; every output line is also parsed by "
         "Python's strict json.loads",
    theorems=[], assumptions=["serde_json's escape table as transcribed"])

reg("C11", gen=lambda rng, n, tier: F.c11(rng, n) + F.c11_big(rng), budget=(9000, 60000), absolute=False, oracle=oracle_c11,
    nontrivial=lambda c, m: c.tags.get("role") == "nul" and m[0] == "0" and len(m[1]) > 1,
    rule="pairs (ARGS, I) / (-z ARGS, swap(I)) over alphabets with LF, NUL and CR for the general path, the fast "
         "lane, -c, -l (both algorithms) and -M (the binary, and the library under a random segmentation); "
         "the same on inputs larger than the 64 KiB buffers (a long record holding the other mode's terminator as data, "
         "then short records); option texts contain neither LF nor NUL",
    theorems=[], assumptions=["option texts (delimiter, replacement, fillers, fallbacks) contain neither LF nor NUL"])

reg("C12", gen=lambda rng, n, tier: F.trim_overlap() + F.c12(rng, n, exhaustive_len=(3 if tier == "quick" else 4)) + F.small_scope(rng, maxlen=(4 if tier == "quick" else 5), sample=(15 if tier == "quick" else 60)),
    budget=(9000, 60000), absolute=True, oracle=oracle_c12, release=True,
    nontrivial=lambda c, m: True,
    rule="bounded-exhaustive bounds strings over {1,2,-,:,=,{,},comma,a,e-acute} up to length 3 (4 thorough) as "
         "-f/-c/-b/-l, plus argv from the option grammar with adversarial pools (0, +-2^31, 2^31+-1, 46341, huge "
         "ranges, unbalanced braces, empty strings, bad regexes, bad -M/-t values, dangling options) x adversarial "
         "stdin; oracle: exit status 0 or 1 within the timeout",
    theorems=[], assumptions=["regexes outside the modelled family are covered by the exit-status oracle only"])

reg("C14", gen=lambda rng, n, tier: F.c14(rng, n) + F.c14_big(rng), budget=(6000, 40000), absolute=False, oracle=oracle_c14,
    compare=lambda c: not c.extra,
    nontrivial=lambda c, m: bool(c.extra),
    rule="every mode; read(0) starts failing (EIO) after k bytes, write(1) accepts k bytes then fails (ENOSPC), "
         "1-byte short writes - through an LD_PRELOAD shim on the real binary; each faulty run compared with the "
         "fault-free run of the same invocation",
    theorems=[], assumptions=["SIGPIPE disposition, kernel pipe semantics and EINTR handling of std are runtime facts "
                              "exercised, not proved"])

reg("C18", gen=lambda rng, n, tier: F.c18(rng, n, maxlen=(4 if tier == "quick" else 5)), budget=(12000, 80000),
    absolute=True, nontrivial=lambda c, m: m[0] == "0",
    rule="every string up to length 4 (5 thorough) over {1,2,0,-,+,:,=,{,},comma,backslash,n,a,space,e-acute} "
         "through UserBoundsList::from_str in-process (accept/reject and the parsed structure compared with the "
         "model), longer random strings biased to well-formed pieces, and the rendering through the real binary",
    theorems=[], assumptions=["braces inside a fallback are outside the statement (Unspecified_C18)"])

reg("C19", gen=lambda rng, n, tier: F.c19(rng, n, full=(tier == "thorough")) + F.argv_spellings(rng, 3000 if tier == "quick" else 20000),
    budget=(5000, 5000), absolute=True,
    oracle=oracle_c19, nontrivial=lambda c, m: True,
    rule="subsets of the option set {-f|-c|-b|-l, -d, -e, -g, -p, -s, -z, -m, -j, --no-join, --json, -r, -t, "
         "--fallback-oob, -M} with representative values (quick: random small subsets with value variants - "
         "multi-byte/empty -d and -r, -M 0, bounds shapes; thorough: all 5*2^14 subsets), reorderings, and pairs "
         "of spellings of one argument vector (long option names, '=' separator, attached short values, combined "
         "short flags, another order) drawn from every mode's generator",
    theorems=[], assumptions=["-e in -b/-l mode and several mode options at once are outside the statement"])


# ------------------------------------------------------------------ C16 / C17

reg("C16", gen=lambda rng, n, tier: (lambda cs: cs + F.with_default_bounds(rng, cs))(F.regex_lattice(rng) + F.regex(rng, (3 * n) // 4) + F.regex_random(rng, n // 4)) + F.c16_literal_pairs(rng, n // 4), budget=(12000, 80000), absolute=True,
    oracle=lambda cases, impl, ctx: oracle_same("literal", "regex", "-e X does not behave like -d X for a regex X without metacharacters")(cases, impl, ctx),
    compare=lambda c: True,
    rule="-e with regexes of the modelled family (single char, class, alternations of different lengths, '+' runs, "
         "groups, multi-byte literals) x bounds x {-g, -t l|r|b, -p -r R, -r R with $-sequences, -s, -m, -j, --json, "
         "-z, fallbacks}; every case compared with the model (whose matcher is the mini engine of Model/Regex.v)",
    theorems=[], assumptions=["regexes outside the family are outside the theorems (anchors, look-around, empty matches)"])


def c17_measure(ctx):
    """peak RSS of the real binary while one dimension of the input grows"""
    import subprocess, tempfile, os
    from common import BUILD
    tuc = ctx["tuc"]
    tmpd = os.path.join(BUILD, "tmp")
    os.makedirs(tmpd, exist_ok=True)
    big = ctx["tier"] == "thorough"
    MB = 1 << 20
    sizes = [1 * MB, 16 * MB, (256 if big else 64) * MB]
    recs = [10 ** 4, 10 ** 5, (10 ** 7 if big else 10 ** 6)]

    def rss(argv, path):
        r = subprocess.run(["/usr/bin/time", "-f", "%M", tuc] + argv, stdin=open(path, "rb"),
                           stdout=subprocess.DEVNULL, stderr=subprocess.PIPE, timeout=1200)
        kb = int(r.stderr.decode().strip().splitlines()[-1])
        return kb, r.returncode

    def one_line(n, kind):
        if kind == "nodelim":
            return b"a" * n + b"\n"
        if kind == "delims":
            return (b"abcdefg-" * (n // 8)) + b"\n"
        if kind == "tail":          # a short selected field, then a long unselected tail
            return b"k-" + b"x" * n + b"\n"
        return b"x" * n + b"-k\n"  # a long unselected field first

    plans = []
    for kind, argv in (("nodelim", ["-M", "1", "-d", "-", "-f", "1"]), ("delims", ["-M", "1", "-d", "-", "-f", "2"]),
                       ("tail", ["-M", "1", "-d", "-", "-f", "1"]), ("head", ["-M", "1", "-d", "-", "-f", "2"]),
                       ("delims", ["-M", "1", "-d", "-", "-f", "3:", "-r", "+"]),
                       # every kind of bound and fallback -M takes: nothing of a line may be held back while its fate is open
                       ("nodelim", ["-M", "1", "-d", "-", "-f", "1:2", "--fallback-oob", "X"]),
                       ("delims", ["-M", "1", "-d", "-", "-f", "{1:3=x}|{5}", "-j"]),
                       ("tail", ["-M", "1", "-d", "-", "-f", "1:2=F,4=G", "--fallback-oob", "H", "-z"]),
                       ("head", ["-M", "1", "-d", "-", "-f", "a{1:2}b", "--fallback-oob", ""])):
        plans.append(("-M, one line, %s" % kind, argv, [(n, lambda n=n, kind=kind: one_line(n, kind)) for n in sizes]))
    rec = b"alpha-beta-gamma\n"
    plans.append(("-f fast lane, records", ["-d", "-", "-f", "2"], [(k, lambda k=k: rec * k) for k in recs]))
    plans.append(("-f general path, records", ["-d", "-", "-f", "2,1", "-p"], [(k, lambda k=k: rec * k) for k in recs]))
    plans.append(("-c, records", ["-c", "2:3"], [(k, lambda k=k: "aé€x\n".encode() * k) for k in recs]))
    plans.append(("-l forward, lines", ["-l", "2,5:7"], [(k, lambda k=k: b"line of text\n" * k) for k in recs]))
    plans.append(("-l forward open range, lines", ["-l", "3:"], [(k, lambda k=k: b"line of text\n" * k) for k in recs]))
    # bounds far apart / at the end of the input: the lines skipped in between must not be kept
    plans.append(("-l forward, last two lines", lambda k: ["-l", "%d,%d" % (k - 1, k)], [(k, lambda k=k: b"line of text\n" * k) for k in recs]))
    plans.append(("-l forward, first and last line", lambda k: ["-l", "1,%d" % k], [(k, lambda k=k: b"line of text\n" * k) for k in recs]))
    plans.append(("-l forward -z, a line in the middle", lambda k: ["-z", "-l", "%d" % (k // 2)], [(k, lambda k=k: b"line of text\0" * k) for k in recs]))
    plans.append(("-f --json, records", ["--json", "-d", "-", "-f", "1,3"], [(k, lambda k=k: rec * k) for k in recs]))
    plans.append(("-f -g -s -t, records", ["-d", "-", "-g", "-s", "-t", "b", "-f", "-1"], [(k, lambda k=k: b"--alpha--beta-\n" * k) for k in recs]))
    plans.append(("-e regex, records", ["-e", "[-,]", "-f", "2:"], [(k, lambda k=k: rec * k) for k in recs]))
    results, bad = [], []
    SLACK_KB = 8 * 1024
    for name, argv, series in plans:
        vals = []
        argv_of = argv if callable(argv) else (lambda n, a=argv: a)
        for n, mk in series:
            path = os.path.join(tmpd, "c17.in")
            with open(path, "wb") as f:
                f.write(mk())
            kb, rc = rss(argv_of(n), path)
            vals.append((n, kb, rc))
        os.remove(path)
        argv = argv_of(series[-1][0])
        results.append({"plan": name, "argv": argv, "series": [{"size": n, "peak_rss_kb": kb, "status": rc} for n, kb, rc in vals]})
        base = vals[0][1]
        for n, kb, rc in vals[1:]:
            if kb > base + SLACK_KB or rc != 0:
                bad.append(("peak memory grows with the input (%s): %d kB at size %d vs %d kB at size %d"
                            % (name, kb, n, base, vals[0][0]),
                            {"why": "peak RSS grows", "plan": name, "argv": argv, "series": vals,
                             "reproduce": "generate the input of the plan and run: /usr/bin/time -f %%M tuc %s < input" % " ".join(argv)}))
                break
    return len(plans) * 3, bad, {"memory_measurements": results, "slack_kb": SLACK_KB}


reg("C17", gen=lambda rng, n, tier: F.stream(rng, n), budget=(600, 3000), absolute=False,
    extra_check=c17_measure,
    nontrivial=lambda c, m: True,
    rule="peak RSS (wait4, via /usr/bin/time) of the real binary while the input grows along the dimension the bound "
         "must not depend on: one -M line of 1, 16, 64 MB (thorough: 256 MB) without delimiters / with many / with a "
         "long unselected tail or head; 10^4..10^6 (thorough 10^7) records for -f (fast and general) and -c; as many "
         "lines for -l with ascending bounds (near the top, at the very end, first and last, -z in the middle), "
         "--json, -g -s -t and -e over records; growth beyond 8 MB over the smallest size is a violation; plus a "
         "correspondence batch on -M",
    theorems=[], assumptions=["allocator, Vec growth policy and page accounting are runtime facts: measured, not proved"])
