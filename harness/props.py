"""Per-property registry: generator, domain, oracle, theorems, assumptions."""
import json
import os
import families as F
from common import Case, VERIF

TRUSTED = [
    "Coq 8.16.1 kernel (coqc), including vm_compute where a proof script uses it; no native_compute",
    "axioms: none (every pinned theorem prints 'Closed under the global context'); none declared by the development",
    "extraction: ExtrOcamlBasic only (bool, option, unit, list, prod, sumbool to OCaml's; Extract Inlined Constant "
    "for fst/snd/andb/orb/negb as shipped); N, Z, nat stay the extracted inductives; OCaml 4.13.1; ocaml/driver.ml",
    "correspondence check (differential testing of the extracted model against the real binary and the tuc library): "
    "harness/*.py, harness-rs/src/main.rs, shim/faultio.c; its strength is bounded by the generators",
    "modelled, not verified: bstr (find_iter leftmost non-overlapping, for_byte_record), memchr, regex (mini-family, "
    "leftmost-first; \\b|\\B = every scalar boundary of valid UTF-8), serde_json::to_string escape table, pico-args 0.5, "
    "std BufReader/BufWriter/read_line/read_until/from_utf8/i32::from_str",
]


def corpus_cases(prop):
    p = os.path.join(VERIF, "corpus", prop + ".jsonl")
    out = []
    if os.path.exists(p):
        for l in open(p):
            l = l.strip()
            if not l:
                continue
            j = json.loads(l)
            out.append(Case([bytes.fromhex(a) for a in j["argv_hex"]], bytes.fromhex(j["stdin_hex"]),
                            entry=j.get("entry", "main"), seg=j.get("seg"), extra=j.get("extra")))
    return out


def always(c, m):
    return True


PROPS = {}

# ------------------------------------------------------------------ C06
PROPS["C06"] = dict(
    gen=lambda rng, n, tier: F.bytes_mode(rng, n),
    budget=(3000, 30000),
    absolute=True,
    in_domain=always,
    nontrivial=lambda c, m: m[0] == "0" and len(m[1]) > 0,
    rule="-b with random bounds lists (positive/negative/open/ranges/format text/fallbacks) on inputs of 0..8 bytes "
         "drawn from all 256 byte values; distinct by (argv, stdin); non-trivial = the model prints at least one byte "
         "with status 0",
    theorems=["C06_byte_mode_exact", "C06_empty_input"],
    assumptions=["input shorter than 2^31 bytes (usize -> i32 cast in try_into_range)",
                 "the model of parse_args/parse_bounds_list/cut_bytes corresponds to the code (checked by this run)"],
)


# ------------------------------------------------------------------ relational oracles

def groups(cases, impl):
    g = {}
    for c in cases:
        if c.tags.get("grp") is not None and c.id in impl:
            g.setdefault(c.tags["grp"], {})[c.tags["role"]] = (c, impl[c.id])
    return g


def fail_payload(what, members):
    return (what, {"why": what, "_cases": [c for (c, r) in members.values()],
                   "runs": [dict(c.to_json(), role=role, observed={"class": r[0], "stdout_hex": r[1].hex()},
                                 reproduce=c.shell()) for role, (c, r) in members.items()]})


def oracle_same(role_a, role_b, what):
    def orc(cases, impl, ctx):
        n, bad = 0, []
        for gid, m in groups(cases, impl).items():
            if role_a in m and role_b in m:
                n += 1
                a, b = m[role_a][1], m[role_b][1]
                if a[0] != b[0] or (a[0] == "0" and a[1] != b[1]):
                    bad.append(fail_payload(what, m))
        return n, bad
    return orc


def oracle_c10(cases, impl, ctx):
    n, bad = 0, []
    model = ctx["model"]
    for gid, m in groups(cases, impl).items():
        if not all(k in m for k in ("A", "B", "AB")):
            continue
        n += 1
        (ca, a), (cb, b), (cab, ab) = m["A"], m["B"], m["AB"]
        if a[0] == "0" and b[0] == "0":
            ok = ab[0] == "0" and ab[1] == a[1] + b[1]
        elif a[0] == "0":
            ok = ab[0] == b[0] and ab[1].startswith(a[1])
        else:
            ma = model.get(ca.id)
            pre = ma[1] if (ma and ma[0] == "1") else b""
            ok = ab[0] == a[0] and ab[1].startswith(pre)
        if not ok:
            bad.append(fail_payload("output for A followed by B is not the output for A followed by the output for B", m))
    return n, bad


def oracle_c15(cases, impl, ctx):
    n, bad = 0, []
    for gid, m in groups(cases, impl).items():
        if "complement" not in m:
            continue
        c, r = m["complement"]
        n += 1
        if c.tags.get("empty"):
            if r[0] != "1":
                bad.append(fail_payload("bounds leave nothing out but the run did not fail", m))
        elif "equivalent" in m:
            e = m["equivalent"][1]
            if r[0] != e[0] or (r[0] == "0" and r[1] != e[1]):
                bad.append(fail_payload("-m output differs from the equivalent explicit request", m))
    return n, bad


PROPS["C09"] = dict(
    gen=lambda rng, n, tier: F.c09(rng, n),
    budget=(3000, 30000),
    absolute=False,
    in_domain=always,
    nontrivial=lambda c, m: c.tags.get("role") == "mirrored" and m[0] == "0",
    oracle=oracle_same("orig", "mirrored", "rewriting -k as n+1-k changed the output"),
    rule="pairs of invocations (modes -f/-c/-b/-l, with -j/-r/--json/-m/--no-join/-z/fallbacks) on inputs whose "
         "records all have n parts, the second with a random subset of the in-range negative indexes rewritten to "
         "n+1-k; each run compared with the model, the pair compared on the implementation; non-trivial = the "
         "rewritten request succeeds",
    theorems=["C09_range_unchanged", "C09_unpack_unchanged", "C09_complement_unchanged", "C09_byte_mode",
              "C09_field_mode_general", "C09_field_mode_fast", "C09_minus_one_is_last", "C09_minus_n_is_first"],
    assumptions=["n < 2^31", "path switching caused by the rewriting (early stop, forward-only line reader) is "
                 "covered by the pair oracle and by C02/C05, not by C09's theorems alone"],
)

PROPS["C10"] = dict(
    gen=lambda rng, n, tier: F.c10(rng, n),
    budget=(3000, 30000),
    absolute=False,
    in_domain=always,
    nontrivial=lambda c, m: c.tags.get("role") == "AB" and len(m[1]) > 0,
    oracle=oracle_c10,
    rule="triples (A, B, A||B), A ending with the EOL, records of different field counts, empty records, failing "
         "records, on the general path (-g/-p/-r/-m, multi-byte delimiters), the fast lane, -c, --json, -e and -M; "
         "non-trivial = the concatenated run delivers output",
    theorems=["C10_general_path", "C10_fast_path", "C10_failure_is_preserved", "C10_failure_is_preserved_fast"],
    assumptions=["the model cuts each record with a function of that record alone (scratch buffers are not "
                 "modelled); that the code's reused buffers do not leak between records is what the "
                 "correspondence check and the triple oracle test", "-M: covered by the correspondence and the oracle; "
                 "its compositional theorem is part of C04's development"],
)

PROPS["C13"] = dict(
    gen=lambda rng, n, tier: F.c13(rng, n),
    budget=(4000, 40000),
    absolute=True,
    in_domain=always,
    nontrivial=lambda c, m: True,
    rule="every mode and path (general, fast, --json, -c, -b, -l forward/buffered, -M incl. segmentations through "
         "the library) with bounds overshooting in either direction on either side, with own/generic/both/no "
         "fallback; every case compared with the model",
    theorems=["C13_unresolvable_iff", "C13_byte_mode", "C13_general_path", "C13_range_expansion_keeps_unresolvable",
              "C13_range_expansion_of_resolvable", "C13_fast_path", "C13_resolvable_ignores_fallbacks_general",
              "C13_resolvable_ignores_fallbacks_fast", "C13_resolvable_ignores_fallbacks_bytes",
              "C13_lines_one_at_a_time", "C13_lines_straddling_range_fails", "C13_fixed_memory"],
    assumptions=["-m with an unresolvable bound and mixed-sign ranges that resolve to an empty interval are outside "
                 "the statement (Unspecified_C13)", "a closed range that straddles the end of a record under -M "
                 "prints the fields it has, then its fallback or fails (a fixed-memory reader cannot retract)"],
)

PROPS["C15"] = dict(
    gen=lambda rng, n, tier: F.c15(rng, (2 * n) // 3) + F.c15_varied(rng, n // 3),
    budget=(3000, 30000),
    absolute=True,
    in_domain=always,
    nontrivial=lambda c, m: c.tags.get("role") == "complement",
    oracle=oracle_c15,
    rule="pairs: -m with bounds resolvable on inputs whose records all have n parts (-f with -j/-r/--json, -l) "
         "against the equivalent explicit request computed from the statement; all-covering bounds must fail; plus -m on "
         "multi-record inputs whose records have different numbers of fields (compared with the model); "
         "non-trivial = the -m member of a pair",
    theorems=["C15_complement_of_a_bound", "C15_selected_parts", "C15_nothing_left_out_fails"],
    assumptions=["n < 2^31"],
)


# ------------------------------------------------------------------ known-finding classes
# A listed finding names one of these predicates; a failing case counts as listed only if it
# is in the class AND the finding's own witness still reproduces (checked on every run).

def kf_lines_blank_input(c):
    """line mode on an input that is empty or a single EOL"""
    eol = b"\0" if b"-z" in c.argv else b"\n"
    return b"-l" in c.argv and c.stdin in (b"", eol)


KF_CLASSES = {"lines_blank_input": kf_lines_blank_input}


PROPS["C01"] = dict(
    gen=lambda rng, n, tier: F.fields(rng, n),
    budget=(5000, 60000),
    absolute=True,
    in_domain=always,
    nontrivial=lambda c, m: m[0] == "0" and len(m[1]) > 1,
    release=True,
    rule="-f on the general path and the fast lane: delimiters of 1..3 bytes incl. self-overlapping ('--', 'aba') and "
         "multi-byte UTF-8, random bounds lists (positive/negative/open/repeated/reordered/format text/fallbacks), the "
         "lattice {-g,-p,-t l|r|b,-s,-j,-r R,-m,-z,--fallback-oob}, records over small, textual, nasty (NUL, CR, "
         "0x80-0xFF) and full byte alphabets, 0..4 records with/without final EOL; non-trivial = status 0 with output "
         "beyond a lone EOL",
    theorems=["C01_fields_locations_are_fields", "C01_offsets_equal_values", "C01_split_is_leftmost_nonoverlapping"],
    assumptions=["records with fewer than 2^31 fields", "proved: the splitting core; trim / -p / -g / -r / the output "
                 "loop are the executable model, tied to the code by this run's correspondence check"],
)
