"""Per-property registry: generator, domain, oracle, theorems, assumptions."""
import json
import os
import families as F
from common import Case, VERIF

TRUSTED = [
    "Coq 8.16.1 kernel (coqc), including vm_compute where a proof script uses it; no native_compute",
    "axioms: none (every pinned theorem prints 'Closed under the global context'); none declared by the development",
    "extraction: ExtrOcamlBasic only (bool, option, unit, list, prod, sumbool to OCaml's; Extract Inlined Constant "
    "for fst/snd/andb/orb/negb as shipped); N, Z, nat stay the extracted inductives; OCaml 4.13.1; ocaml/driver.ml",
    "correspondence check (differential testing of the extracted model against the real binary and the tuc library): "
    "harness/*.py, harness-rs/src/main.rs, shim/faultio.c; its strength is bounded by the generators",
    "modelled, not verified: bstr (find_iter leftmost non-overlapping, for_byte_record), memchr, regex (mini-family, "
    "leftmost-first; \\b|\\B = every scalar boundary of valid UTF-8), serde_json::to_string escape table, pico-args 0.5, "
    "std BufReader/BufWriter/read_line/read_until/from_utf8/i32::from_str",
]


def corpus_cases(prop):
    p = os.path.join(VERIF, "corpus", prop + ".jsonl")
    out = []
    if os.path.exists(p):
        for l in open(p):
            l = l.strip()
            if not l:
                continue
            j = json.loads(l)
            out.append(Case([bytes.fromhex(a) for a in j["argv_hex"]], bytes.fromhex(j["stdin_hex"]),
                            entry=j.get("entry", "main"), seg=j.get("seg"), extra=j.get("extra")))
    return out


def always(c, m):
    return True


PROPS = {}

# ------------------------------------------------------------------ C06
PROPS["C06"] = dict(
    gen=lambda rng, n, tier: F.bytes_mode(rng, n),
    budget=(3000, 30000),
    absolute=True,
    in_domain=always,
    nontrivial=lambda c, m: m[0] == "0" and len(m[1]) > 0,
    rule="-b with random bounds lists (positive/negative/open/ranges/format text/fallbacks) on inputs of 0..8 bytes "
         "drawn from all 256 byte values; distinct by (argv, stdin); non-trivial = the model prints at least one byte "
         "with status 0",
    theorems=["C06_byte_mode_exact", "C06_empty_input"],
    assumptions=["input shorter than 2^31 bytes (usize -> i32 cast in try_into_range)",
                 "the model of parse_args/parse_bounds_list/cut_bytes corresponds to the code (checked by this run)"],
)
