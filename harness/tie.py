"""Translation tie: the integer / decision core of src/bounds is translated from the repository's
current source to Gallina (translator/, rs2coq) on every run; the bridge lemmas of coq/Tie/ then
re-prove, against what the source says now, that the translated functions are the model's, and
Tie/Corollaries.v restates the property theorems over the translated code.

Per function the outcome is one of
  bridged      translated, and its bridge lemma checks
  failed       translated, but the bridge lemma no longer checks (the function changed meaning, or was
               rewritten beyond what the proof script follows); a search over a grid of arguments is run
               and its result recorded
  unsupported  the function uses constructs outside the translator's subset
  missing      the function was not found where it used to be
The correspondence check stays in force in every case; `failed` additionally makes the properties that
rest on the function report a violation (with a failing input if the enlarged search finds one).
"""
import json
import os
import re

from common import *  # noqa

TIE = os.path.join(COQ, "Tie")
ORDER = ["side_partial_cmp", "ub_partial_cmp", "ub_matches", "ub_try_into_range", "complement_std_range",
         "ub_new", "ub_from_range", "ub_unpack", "ub_complement",
         "ubl_bounds_only", "ubl_is_sortable", "ubl_is_sorted", "ubl_has_negative_indices", "ubl_is_forward_only",
         "fast_try_from", "stream_try_from", "fb_try_from", "side_from_str", "ub_from_str",
         "ubl_unpack", "ubl_complement", "cut_bytes", "fast_output_parts", "fast_cut_record",
         "fill_fields", "compress_delimiter", "trim", "maybe_replace", "fill_regex", "trim_regex", "compress_regex", "cut_str", "print_field", "print_bof", "print_rest", "cut_lines", "read_and_cut_bytes", "get_last_bound", "lines_forward", "read_and_cut_lines"]
DEPS = {"ub_partial_cmp": ["side_partial_cmp"], "ub_from_range": ["ub_new"], "ub_unpack": ["ub_new", "ub_try_into_range"],
        "ub_complement": ["ub_try_into_range", "complement_std_range", "ub_from_range", "ub_new"],
        "ubl_is_sortable": ["ubl_bounds_only"], "ubl_is_sorted": ["ubl_bounds_only", "ub_partial_cmp", "side_partial_cmp"],
        "ubl_has_negative_indices": ["ubl_bounds_only"],
        "ub_from_str": ["side_from_str", "ub_new"],
        "ubl_unpack": ["ub_unpack", "ub_new", "ub_try_into_range"],
        "cut_bytes": ["ub_try_into_range", "ubl_unpack", "ub_unpack", "ub_new"],
        "fast_output_parts": ["ub_try_into_range"],
        "compress_delimiter": ["fill_fields"],
        "print_bof": ["ub_matches", "print_field"],
        "lines_forward": ["ub_matches", "print_field", "print_bof"],
        "get_last_bound": ["fb_try_from", "ubl_is_forward_only", "ubl_bounds_only", "ubl_is_sortable", "ubl_is_sorted", "ubl_has_negative_indices", "ub_partial_cmp", "side_partial_cmp"],
        "read_and_cut_bytes": ["cut_bytes", "ub_try_into_range", "ubl_unpack", "ub_unpack", "ub_new"],
        "cut_lines": ["cut_str", "trim", "trim_regex", "fill_fields", "compress_delimiter", "compress_regex", "fill_regex", "ubl_complement", "ubl_unpack", "ub_try_into_range", "maybe_replace",
                      "ub_complement", "complement_std_range", "ub_from_range", "ub_new", "ub_unpack", "ubl_has_negative_indices", "ubl_bounds_only"],
        "print_rest": ["ub_matches", "print_bof", "print_field"],
        "cut_str": ["trim", "trim_regex", "fill_fields", "compress_delimiter", "compress_regex", "fill_regex", "ubl_complement", "ubl_unpack", "ub_try_into_range", "maybe_replace",
                    "ub_complement", "complement_std_range", "ub_from_range", "ub_new", "ub_unpack", "ubl_has_negative_indices", "ubl_bounds_only"],
        "read_and_cut_lines": ["ubl_is_forward_only", "ubl_bounds_only", "ubl_is_sortable", "ubl_is_sorted", "ubl_has_negative_indices", "ub_partial_cmp", "side_partial_cmp",
                               "lines_forward", "cut_lines", "cut_str", "ub_matches", "print_field", "print_bof", "trim", "trim_regex", "fill_fields", "compress_delimiter", "compress_regex", "fill_regex",
                               "ubl_complement", "ubl_unpack", "ub_try_into_range", "maybe_replace", "ub_complement", "complement_std_range", "ub_from_range", "ub_new", "ub_unpack"],
        "fb_try_from": ["ubl_is_forward_only", "ubl_bounds_only", "ubl_is_sortable", "ubl_is_sorted", "ubl_has_negative_indices", "ub_partial_cmp", "side_partial_cmp"],
        "fast_cut_record": ["fast_output_parts", "ub_try_into_range", "fast_try_from"],
        "ubl_complement": ["ub_complement", "ub_try_into_range", "complement_std_range", "ub_from_range", "ub_new", "ubl_unpack",
                           "ubl_has_negative_indices", "ubl_bounds_only"],
        "ubl_is_forward_only": ["ubl_bounds_only", "ubl_is_sortable", "ubl_is_sorted", "ubl_has_negative_indices", "ub_partial_cmp", "side_partial_cmp"]}
# which properties' theorems rest on which translated function
USES = {
    "ub_try_into_range": ["C06", "C09", "C12", "C13", "C15"],
    "ub_matches": ["C03", "C04", "C05", "C12"],
    "side_partial_cmp": ["C02", "C05", "C19"],
    "ub_partial_cmp": ["C05", "C19"],
    "complement_std_range": ["C15"],
    "ub_new": ["C08", "C15"],
    "ub_from_range": ["C15"],
    "ub_unpack": ["C07", "C08", "C13"],
    "ub_complement": ["C15"],
    "ubl_bounds_only": ["C02", "C05", "C19"],
    "ubl_is_sortable": ["C02", "C05", "C19"],
    "ubl_is_sorted": ["C03", "C05", "C19"],
    "ubl_has_negative_indices": ["C05", "C19"],
    "ubl_is_forward_only": ["C03", "C05", "C19"],
    "fast_try_from": ["C02", "C19"],
    "stream_try_from": ["C03", "C19"],
    "fb_try_from": ["C03", "C19"],
    "side_from_str": ["C12", "C18"],
    "ub_from_str": ["C12", "C18"],
    "ubl_unpack": ["C07", "C08", "C13"],
    "ubl_complement": ["C13", "C15"],
    "cut_bytes": ["C06", "C13"],
    "fast_output_parts": ["C02", "C13"],
    "fast_cut_record": ["C01", "C02", "C10"],
    "fill_fields": ["C01", "C10"],
    "compress_delimiter": ["C01", "C10"],
    "trim": ["C01", "C12"],
    "maybe_replace": ["C01", "C16"],
    "read_and_cut_lines": ["C05"],
    "cut_str": ["C01", "C07", "C10", "C16"],
    "cut_lines": ["C05"],
    "lines_forward": ["C05", "C13"],
    "get_last_bound": ["C03", "C19"],
    "read_and_cut_bytes": ["C06"],
    "print_field": ["C03", "C04"],
    "print_bof": ["C03", "C04"],
    "print_rest": ["C03", "C13"],
    "compress_regex": ["C16"],
    "fill_regex": ["C16"],
    "trim_regex": ["C16"],
}
LEMMA = {n: "tie_" + n for n in ORDER}


def build_translator():
    tdir = os.path.join(BUILD, "target-rs2coq")
    sh(["cargo", "build", "--offline", "--manifest-path", os.path.join(VERIF, "translator", "Cargo.toml"),
        "--target-dir", tdir], timeout=1800)
    return os.path.join(tdir, "debug", "rs2coq")


def _coqc(name, timeout=300):
    rc, out = sh(["timeout", str(timeout), "coqc", "-Q", COQ, "TucModel", os.path.join(TIE, name + ".v")], cwd=COQ, check=False)
    return rc, out


def _fresh(name, deps):
    """is Tie/<name>.vo newer than its source and than everything it depends on?"""
    vo = os.path.join(TIE, name + ".vo")
    if not os.path.exists(vo):
        return False
    t = os.path.getmtime(vo)
    for d in deps:
        if not os.path.exists(d) or os.path.getmtime(d) > t:
            return False
    return True


def _rm(name):
    for ext in (".vo", ".glob", ".vok", ".vos"):
        p = os.path.join(TIE, name + ext)
        if os.path.exists(p):
            os.remove(p)
    p = os.path.join(TIE, "." + name + ".aux")
    if os.path.exists(p):
        os.remove(p)


def tie_check():
    """Returns {function: {status, detail, source, lemma, search?}}, plus key '_corollaries'."""
    res = {}
    try:
        tr = build_translator()
        sh([tr, REPO, TIE])
        status = json.load(open(os.path.join(TIE, "status.json")))
    except Exception as e:  # the translator itself does not build/run: the tie is unavailable, not violated
        return {n: {"status": "unsupported", "detail": "translator: " + str(e)[-300:], "source": "", "lemma": LEMMA[n]} for n in ORDER} | \
               {"_corollaries": {"status": "skipped"}}
    model_vos = [os.path.join(COQ, "Model", "Bounds.vo"), os.path.join(COQ, "Proofs", "C15.vo"), os.path.join(COQ, "Proofs", "C09.vo"),
                 os.path.join(COQ, "Proofs", "BoundsFacts.vo")]
    base = []
    model_vos += [os.path.join(COQ, "Model", "Stream.vo"), os.path.join(COQ, "Model", "FastLane.vo"), os.path.join(COQ, "Proofs", "C19.vo"),
                  os.path.join(COQ, "Proofs", "C03Full.vo")]
    model_vos += [os.path.join(COQ, "Model", "BoundsParse.vo"), os.path.join(COQ, "Proofs", "C18Iff.vo")]
    model_vos += [os.path.join(COQ, "Model", "Scan.vo"), os.path.join(COQ, "Proofs", "ScanSplit.vo"), os.path.join(COQ, "Proofs", "C02.vo")]
    model_vos += [os.path.join(COQ, "Model", "CutStr.vo"), os.path.join(COQ, "Proofs", "C16Replace.vo"), os.path.join(COQ, "Proofs", "C16.vo"), os.path.join(COQ, "Proofs", "C12.vo"), os.path.join(COQ, "Model", "CutLines.vo"), os.path.join(COQ, "Proofs", "C05Full.vo"), os.path.join(COQ, "Proofs", "PlainMulti.vo"), os.path.join(COQ, "Proofs", "Utf8Snoc.vo")]
    for b in ("RsPrelude", "TieBase", "RsOpt", "RsStr", "RsList", "RsScan", "RsRegex", "RsLines", "RsCut", "CutStrFacts", "LinesFacts"):
        src = os.path.join(TIE, b + ".v")
        if not _fresh(b, [src] + (model_vos[:1] if b not in ("RsOpt", "RsStr", "RsRegex", "RsLines", "RsCut", "CutStrFacts", "LinesFacts") else [model_vos[0], model_vos[4], os.path.join(COQ, "Model", "BoundsParse.vo"), os.path.join(COQ, "Model", "CutStr.vo"), os.path.join(COQ, "Model", "CutLines.vo"), os.path.join(COQ, "Proofs", "BoundsFacts.vo"), os.path.join(COQ, "Proofs", "C06.vo")]) + base):
            rc, out = _coqc(b)
            if rc != 0:
                raise BuildError("Tie/%s.v does not compile:\n%s" % (b, out[-2000:]))
        base.append(os.path.join(TIE, b + ".vo"))
    okvo = {}
    for n in ORDER:
        st = status.get(n, {"status": "missing", "detail": "no status", "source": ""})
        r = {"status": st["status"], "detail": st.get("detail", ""), "source": st.get("source", ""), "lemma": LEMMA[n]}
        res[n] = r
        gen, br = "Gen_" + n, "Bridge_" + n
        if st["status"] != "ok":
            _rm(gen)
            _rm(br)
            continue
        if any(d not in okvo for d in DEPS.get(n, [])):
            r.update(status="unsupported", detail="depends on a function that is not bridged: " + ", ".join(d for d in DEPS.get(n, []) if d not in okvo))
            _rm(gen)
            _rm(br)
            continue
        deps = base + [okvo[d] for d in DEPS.get(n, [])]
        gsrc = os.path.join(TIE, gen + ".v")
        if not _fresh(gen, [gsrc] + deps):
            rc, out = _coqc(gen)
            if rc != 0:
                _rm(gen)
                _rm(br)
                r.update(status="unsupported", detail="the translation does not type-check in Coq: " + out[-600:])
                continue
        gvo = os.path.join(TIE, gen + ".vo")
        bdeps = [os.path.join(TIE, br + ".v"), gvo] + deps + model_vos + \
                [os.path.join(TIE, "Bridge_" + d + ".vo") for d in DEPS.get(n, [])]
        if not _fresh(br, bdeps):
            rc, out = _coqc(br)
            if rc != 0:
                _rm(br)
                r.update(status="failed", detail=out[-1200:])
                # where do the translated code and the model differ?  (a grid of arguments, evaluated by the kernel)
                if os.path.exists(os.path.join(TIE, "Search_" + n + ".v")):
                    rc2, out2 = _coqc("Search_" + n, timeout=600)
                    _rm("Search_" + n)
                    r["search"] = out2[-1500:] if rc2 == 0 else "search did not run: " + out2[-400:]
                continue
        okvo[n] = gvo
        r["status"] = "bridged"
    allok = all(res[n]["status"] == "bridged" for n in ORDER)
    cor = {"status": "skipped (needs every function bridged)"}
    if allok:
        cdeps = [os.path.join(TIE, "Corollaries.v")] + [os.path.join(TIE, "Bridge_" + n + ".vo") for n in ORDER] + model_vos
        cor = {"status": "checked"}
        if not _fresh("Corollaries", cdeps):
            rc, out = _coqc("Corollaries")
            if rc != 0:
                _rm("Corollaries")
                cor = {"status": "failed", "detail": out[-1200:]}
            elif out.count("Closed under the global context") != len(re.findall(r"^Print Assumptions", open(cdeps[0]).read(), re.M)):
                _rm("Corollaries")
                cor = {"status": "failed", "detail": "axioms reported: " + out[-600:]}
    else:
        _rm("Corollaries")
    res["_corollaries"] = cor
    return res


def for_property(prop, res):
    """(functions relevant to prop, those whose bridge failed, those not translated)"""
    rel = [n for n in ORDER if prop in USES[n]]
    failed = [n for n in rel if res[n]["status"] == "failed"]
    if rel and res.get("_corollaries", {}).get("status") == "failed":
        failed = failed or ["corollaries"]
    untr = [n for n in rel if res[n]["status"] in ("unsupported", "missing")]
    return rel, failed, untr
