#!/bin/sh
# run_harmless.sh [ids...] : apply each behaviour-preserving rewrite of harmless/<id>/patch.diff to the repository,
# run every property's quick check, revert.  Any VIOLATION line is a false alarm of the framework.
V=$(cd "$(dirname "$0")/.." && pwd)
REPO=${TUC_REPO:-/repo}
cd "$V"
ids="$@"; [ -z "$ids" ] && ids=$(ls harmless | grep -v RESULTS)
mkdir -p .build; rm -rf .build/evidence.keep; cp -r evidence .build/evidence.keep
trap 'rm -rf "$V/evidence"; cp -r "$V/.build/evidence.keep" "$V/evidence"; "$V/.build/target-rs2coq/debug/rs2coq" "$REPO" "$V/coq/Tie" >/dev/null 2>&1' EXIT
for id in $ids; do
  git -C "$REPO" apply "$V/harmless/$id/patch.diff" || { echo "$id: patch does not apply"; continue; }
  bad=""
  for i in 01 02 03 04 05 06 07 08 09 10 11 12 13 14 15 16 17 18 19; do
    out=$(./check C$i quick 2>/dev/null | grep -E "^VIOLATION" | head -1)
    [ -n "$out" ] && bad="$bad C$i[$out]"
  done
  git -C "$REPO" checkout -- .
  tie=$(python3 -c "
import json,sys
d=json.load(open('$V/.build/evidence.keep/C01.json')) if False else None
" 2>/dev/null)
  echo "$id: ${bad:-no alarm in 19 checks}"
done
