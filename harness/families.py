"""Generator families: each returns a list of Case for one region of tuc's behaviour."""
from common import Case
from gen import *

DELIMS = [b"-", b"-", b",", b"--", b"ab", b"aba", b" ", b"\t", b"::", "é".encode(), b"a"]


def field_opts(rng, delim, fast=False):
    """a random point of the field-mode option lattice"""
    o = []
    if rng.random() < 0.2: o.append("-j")
    if rng.random() < 0.2: o.append("-s")
    if rng.random() < 0.25: o += ["-t", rng.choice("lrbLRB")]
    if rng.random() < 0.25: o += ["--fallback-oob", rng.choice(["", "G", "gg", "é", "-"])]
    if not fast:
        if rng.random() < 0.25: o.append("-g")
        if rng.random() < 0.25: o.append("-p")
        if rng.random() < 0.25: o += ["-r", rng.choice(["/", "", "--", "ab", "é", "$0", "\\n"])]
        if rng.random() < 0.1: o.append("-m")
    return o


def fields(rng, n):
    out = []
    for _ in range(n):
        delim = rng.choice(DELIMS)
        z = rng.random() < 0.2
        eol = b"\0" if z else b"\n"
        argv = ["-d", delim, "-f", gen_bounds(rng)] + field_opts(rng, delim) + (["-z"] if z else [])
        if rng.random() < 0.1:
            argv = argv[2:]  # default TAB delimiter
            delim = b"\t"
        alpha = pick_alphabet(rng, delim, eol)
        out.append(Case(argv, gen_input(rng, delim, alpha, eol)))
    return out


def fast(rng, n):
    out = []
    for _ in range(n):
        delim = rng.choice([b"-", b",", b" ", b"a", b"\t", b":"])
        z = rng.random() < 0.2
        eol = b"\0" if z else b"\n"
        argv = ["-d", delim, "-f", gen_bounds(rng, hi=6, neg=rng.choice([0, 0, 0.3]))] + field_opts(rng, delim, fast=True) + (["-z"] if z else [])
        alpha = pick_alphabet(rng, delim, eol)
        data = gen_input(rng, delim, alpha, eol, maxfields=8)
        for entry in ("main", "general", "fast"):
            out.append(Case(argv, data, entry=entry))
    return out


def bytes_mode(rng, n):
    out = []
    for _ in range(n):
        argv = ["-b", gen_bounds(rng, hi=6)]
        if rng.random() < 0.2: argv += ["--fallback-oob", rng.choice(["", "G", "zz"])]
        alpha = rng.choice([ALPHA_BIN, ALPHA_NASTY, ALPHA_TEXT])
        out.append(Case(argv, bytes(rng.choice(alpha) for _ in range(rng.randint(0, 8)))))
    return out


def lines(rng, n):
    out = []
    for _ in range(n):
        z = rng.random() < 0.25
        eol = b"\0" if z else b"\n"
        fwd = rng.random() < 0.5
        b = gen_forward_bounds(rng, hi=5, strict=False, fmt=0.05) if fwd else gen_bounds(rng, hi=5, fmt=0.05)
        argv = ["-l", b] + (["-z"] if z else [])
        if rng.random() < 0.25: argv.append("--no-join")
        if rng.random() < 0.15: argv.append("-m")
        if rng.random() < 0.2: argv += ["--fallback-oob", rng.choice(["", "G"])]
        nl = rng.randint(0, 6)
        pool = [b"", b"a", b"bc", "é".encode(), b"l 3", b"\r", b"x\ry"] + ([b"\xff"] if rng.random() < 0.1 else [])
        ls = [rng.choice(pool) for _ in range(nl)]
        data = eol.join(ls) + (eol if ls and rng.random() < 0.7 else b"")
        out.append(Case(argv, data))
    return out


def chars(rng, n):
    out = []
    for _ in range(n):
        z = rng.random() < 0.2
        eol = "\0" if z else "\n"
        argv = ["-c", gen_bounds(rng, hi=5, fbtext=["x", "", "é"])] + (["-z"] if z else [])
        if rng.random() < 0.2: argv.append("--json")
        if rng.random() < 0.2: argv += ["--fallback-oob", rng.choice(["", "G"])]
        if rng.random() < 0.1: argv.append("-m")
        recs = [utf8_text(rng, 6) for _ in range(rng.randint(0, 3))]
        data = eol.join(r.replace(eol, "") for r in recs) + (eol if recs and rng.random() < 0.7 else "")
        out.append(Case(argv, data.encode()))
    return out


def jsonf(rng, n):
    out = []
    for _ in range(n):
        delim = rng.choice(["-", ",", "--", "é", " "])
        argv = ["--json", "-d", delim, "-f", gen_bounds(rng, fmt=0.02, fbtext=["x", "", "é", "a,b", '"'])]
        for f in ("-g", "-p", "-s", "-m", "-z"):
            if rng.random() < 0.15: argv.append(f)
        if rng.random() < 0.2: argv += ["-t", rng.choice("lrb")]
        if rng.random() < 0.2: argv += ["--fallback-oob", rng.choice(["", "G", '"q"'])]
        eol = "\0" if "-z" in argv else "\n"
        recs = []
        for _ in range(rng.randint(0, 3)):
            fs = [utf8_text(rng, 3) for _ in range(rng.randint(1, 5))]
            recs.append(delim.join(f.replace(eol, "") for f in fs))
        data = eol.join(recs) + (eol if recs and rng.random() < 0.7 else "")
        out.append(Case(argv, data.encode()))
    return out


REGEXES = ["-", "[-,]", "-|,", "-+", "ab|a", "a|ab", "(ab)+", "[0-9]+", "é", "é+", "x|yy|zzz", "[ab]c", ",( )+", "(-|,)+"]


def regex(rng, n):
    out = []
    for _ in range(n):
        re_ = rng.choice(REGEXES)
        argv = ["-e", re_, "-f", gen_bounds(rng)]
        if rng.random() < 0.5: argv += ["-r", rng.choice(["/", "", "--", "$0", "$1x", "é", "-", "${0}"])]
        for f in ("-g", "-p", "-s", "-m", "-j", "-z"):
            if rng.random() < 0.15: argv.append(f)
        if rng.random() < 0.3: argv += ["-t", rng.choice("lrb")]
        if rng.random() < 0.15 and "-r" not in argv: argv.append("--json")
        if rng.random() < 0.2: argv += ["--fallback-oob", rng.choice(["", "G", "x-y"])]
        eol = b"\0" if "-z" in argv else b"\n"
        alpha = [c for c in b"ab-,cxyz09 " + "é".encode() if c != eol[0]]
        recs = [bytes(rng.choice(alpha) for _ in range(rng.randint(0, 8))) for _ in range(rng.randint(0, 3))]
        data = eol.join(recs) + (eol if recs and rng.random() < 0.7 else b"")
        out.append(Case(argv, data))
    return out


def stream(rng, n):
    out = []
    for _ in range(n):
        delim = rng.choice([b"-", b",", b" "])
        z = rng.random() < 0.2
        eol = b"\0" if z else b"\n"
        argv = ["-M", "1", "-d", delim, "-f", gen_forward_bounds(rng)] + (["-z"] if z else [])
        if rng.random() < 0.3: argv.append("-j")
        if rng.random() < 0.25: argv += ["-r", rng.choice(["/", "+"])]
        if rng.random() < 0.3: argv += ["--fallback-oob", rng.choice(["", "G", "gg"])]
        alpha = pick_alphabet(rng, delim, eol)
        data = gen_input(rng, delim, alpha, eol, maxfields=7, run_p=0.15)
        k = len(data)
        seg = []
        if k and rng.random() < 0.8:
            left = k
            while left > 0:
                s = rng.randint(1, min(left, rng.choice([1, 2, 3, 8])))
                seg.append(s); left -= s
        out.append(Case(argv, data, entry="stream", seg=seg))
        if rng.random() < 0.3:
            out.append(Case(argv, data, entry="main", seg=seg))
    return out
