"""Generator families: each returns a list of Case for one region of tuc's behaviour."""
from common import Case
from gen import *

DELIMS = [b"-", b"-", b",", b"--", b"ab", b"aba", b" ", b"\t", b"::", "é".encode(), b"a"]


def field_opts(rng, delim, fast=False):
    """a random point of the field-mode option lattice"""
    o = []
    if rng.random() < 0.2: o.append("-j")
    if rng.random() < 0.2: o.append("-s")
    if rng.random() < 0.25: o += ["-t", rng.choice("lrbLRB")]
    if rng.random() < 0.25: o += ["--fallback-oob", rng.choice(["", "G", "gg", "é", "-"])]
    if not fast:
        if rng.random() < 0.25: o.append("-g")
        if rng.random() < 0.25: o.append("-p")
        if rng.random() < 0.25: o += ["-r", rng.choice(["/", "", "--", "ab", "é", "$0", "\\n"])]
        if rng.random() < 0.1: o.append("-m")
    return o


def fields(rng, n):
    out = []
    for _ in range(n):
        delim = rng.choice(DELIMS)
        z = rng.random() < 0.2
        eol = b"\0" if z else b"\n"
        argv = ["-d", delim, "-f", gen_bounds(rng)] + field_opts(rng, delim) + (["-z"] if z else [])
        if rng.random() < 0.1:
            argv = argv[2:]  # default TAB delimiter
            delim = b"\t"
        alpha = pick_alphabet(rng, delim, eol)
        out.append(Case(argv, gen_input(rng, delim, alpha, eol)))
    return out


def fast(rng, n):
    out = []
    for _ in range(n):
        delim = rng.choice([b"-", b",", b" ", b"a", b"\t", b":"])
        z = rng.random() < 0.2
        eol = b"\0" if z else b"\n"
        argv = ["-d", delim, "-f", gen_bounds(rng, hi=6, neg=rng.choice([0, 0, 0.3]))] + field_opts(rng, delim, fast=True) + (["-z"] if z else [])
        alpha = pick_alphabet(rng, delim, eol)
        data = gen_input(rng, delim, alpha, eol, maxfields=8)
        for entry in ("main", "general", "fast"):
            out.append(Case(argv, data, entry=entry))
    return out


def bytes_mode(rng, n):
    out = []
    for _ in range(n):
        argv = ["-b", gen_bounds(rng, hi=6)]
        if rng.random() < 0.2: argv += ["--fallback-oob", rng.choice(["", "G", "zz"])]
        alpha = rng.choice([ALPHA_BIN, ALPHA_NASTY, ALPHA_TEXT])
        out.append(Case(argv, bytes(rng.choice(alpha) for _ in range(rng.randint(0, 8)))))
    return out


def lines(rng, n):
    out = []
    for _ in range(n):
        z = rng.random() < 0.25
        eol = b"\0" if z else b"\n"
        fwd = rng.random() < 0.5
        b = gen_forward_bounds(rng, hi=5, strict=False, fmt=0.05) if fwd else gen_bounds(rng, hi=5, fmt=0.05)
        argv = ["-l", b] + (["-z"] if z else [])
        if rng.random() < 0.25: argv.append("--no-join")
        if rng.random() < 0.15: argv.append("-m")
        if rng.random() < 0.2: argv += ["--fallback-oob", rng.choice(["", "G"])]
        nl = rng.randint(0, 6)
        pool = [b"", b"a", b"bc", "é".encode(), b"l 3", b"\r", b"x\ry"] + ([b"\xff"] if rng.random() < 0.1 else [])
        ls = [rng.choice(pool) for _ in range(nl)]
        data = eol.join(ls) + (eol if ls and rng.random() < 0.7 else b"")
        out.append(Case(argv, data))
    return out


def chars(rng, n):
    out = []
    for _ in range(n):
        z = rng.random() < 0.2
        eol = "\0" if z else "\n"
        argv = ["-c", gen_bounds(rng, hi=5, fbtext=["x", "", "é"])] + (["-z"] if z else [])
        if rng.random() < 0.2: argv.append("--json")
        if rng.random() < 0.2: argv += ["--fallback-oob", rng.choice(["", "G"])]
        if rng.random() < 0.1: argv.append("-m")
        recs = [utf8_text(rng, 6) for _ in range(rng.randint(0, 3))]
        data = eol.join(r.replace(eol, "") for r in recs) + (eol if recs and rng.random() < 0.7 else "")
        out.append(Case(argv, data.encode()))
    return out


def jsonf(rng, n):
    out = []
    for _ in range(n):
        delim = rng.choice(["-", ",", "--", "é", " "])
        argv = ["--json", "-d", delim, "-f", gen_bounds(rng, fmt=0.02, fbtext=["x", "", "é", "a,b", '"'])]
        for f in ("-g", "-p", "-s", "-m", "-z"):
            if rng.random() < 0.15: argv.append(f)
        if rng.random() < 0.2: argv += ["-t", rng.choice("lrb")]
        if rng.random() < 0.2: argv += ["--fallback-oob", rng.choice(["", "G", '"q"'])]
        eol = "\0" if "-z" in argv else "\n"
        recs = []
        for _ in range(rng.randint(0, 3)):
            fs = [utf8_text(rng, 3) for _ in range(rng.randint(1, 5))]
            recs.append(delim.join(f.replace(eol, "") for f in fs))
        data = eol.join(recs) + (eol if recs and rng.random() < 0.7 else "")
        out.append(Case(argv, data.encode()))
    return out


REGEXES = ["-", "[-,]", "-|,", "-+", "ab|a", "a|ab", "(ab)+", "[0-9]+", "é", "é+", "x|yy|zzz", "[ab]c", ",( )+", "(-|,)+"]


def regex(rng, n):
    out = []
    for _ in range(n):
        re_ = rng.choice(REGEXES)
        argv = ["-e", re_, "-f", gen_bounds(rng)]
        if rng.random() < 0.5: argv += ["-r", rng.choice(["/", "", "--", "$0", "$1x", "é", "-", "${0}"])]
        for f in ("-g", "-p", "-s", "-m", "-j", "-z"):
            if rng.random() < 0.15: argv.append(f)
        if rng.random() < 0.3: argv += ["-t", rng.choice("lrb")]
        if rng.random() < 0.15 and "-r" not in argv: argv.append("--json")
        if rng.random() < 0.2: argv += ["--fallback-oob", rng.choice(["", "G", "x-y"])]
        eol = b"\0" if "-z" in argv else b"\n"
        alpha = [c for c in b"ab-,cxyz09 " + "é".encode() if c != eol[0]]
        recs = [bytes(rng.choice(alpha) for _ in range(rng.randint(0, 8))) for _ in range(rng.randint(0, 3))]
        data = eol.join(recs) + (eol if recs and rng.random() < 0.7 else b"")
        out.append(Case(argv, data))
    return out


def stream(rng, n):
    out = []
    for _ in range(n):
        delim = rng.choice([b"-", b",", b" "])
        z = rng.random() < 0.2
        eol = b"\0" if z else b"\n"
        argv = ["-M", "1", "-d", delim, "-f", gen_forward_bounds(rng)] + (["-z"] if z else [])
        if rng.random() < 0.3: argv.append("-j")
        if rng.random() < 0.25: argv += ["-r", rng.choice(["/", "+"])]
        if rng.random() < 0.3: argv += ["--fallback-oob", rng.choice(["", "G", "gg"])]
        alpha = pick_alphabet(rng, delim, eol)
        data = gen_input(rng, delim, alpha, eol, maxfields=7, run_p=0.15)
        k = len(data)
        seg = []
        if k and rng.random() < 0.8:
            left = k
            while left > 0:
                s = rng.randint(1, min(left, rng.choice([1, 2, 3, 8])))
                seg.append(s); left -= s
        out.append(Case(argv, data, entry="stream", seg=seg))
        if rng.random() < 0.3:
            out.append(Case(argv, data, entry="main", seg=seg))
    return out


# ---------------------------------------------------------------- relational families
# Cases that belong together carry tags = {"grp": <id>, "role": <name>}; the property's oracle
# evaluates the relation on the implementation's own results.

def _uniform_input(rng, mode, n, delim=b"-", eol=b"\n", nrec=None):
    """an input whose records all have exactly n parts (or an input of n bytes / n lines)"""
    if mode == "b":
        return bytes(rng.choice(ALPHA_BIN) for _ in range(n))
    if mode == "l":
        pool = [b"", b"a", b"bc", "é".encode(), b"l 3", b"\r"]
        ls = [rng.choice(pool) for _ in range(n)]
        if ls and ls[-1] == b"" and rng.random() < 0.5:
            ls[-1] = b"z"
        return eol.join(ls) + (eol if (ls and (ls[-1] == b"" or rng.random() < 0.7)) else b"")
    recs = []
    for _ in range(nrec or rng.randint(1, 3)):
        if mode == "c":
            pool = [c for c in ["a", "b", "é", "€", "𝄞", " ", "-", "\t"] if c.encode() != eol]
            recs.append("".join(rng.choice(pool) for _ in range(n)).encode())
        else:
            alpha = [c for c in b"abc xyz" if bytes([c]) != eol and c not in delim]
            fs = [bytes(rng.choice(alpha) for _ in range(rng.randint(0 if n > 1 else 1, 3))) for _ in range(n)]
            if n > 0 and all(f == b"" for f in fs):
                fs[0] = b"q"
            recs.append(delim.join(fs))
    return eol.join(recs) + (eol if rng.random() < 0.7 else b"")


def _sbound(rng, n, over=0.15):
    """structured bound (l, r, fb) with indexes mostly within +-n"""
    def idx():
        k = rng.randint(1, max(1, n)) if rng.random() > over else n + rng.randint(1, 2)
        return -k if rng.random() < 0.5 else k
    r = rng.random()
    if r < 0.4:
        v = idx(); b = (v, v)
    elif r < 0.7:
        a, z = idx(), idx()
        if (a > 0) == (z > 0) and a > z:
            a, z = z, a
        b = (a, z)
    elif r < 0.85:
        b = (idx(), None)
    else:
        b = (None, idx())
    fb = rng.choice([None, None, None, "x", ""])
    return b + (fb,)


def _render(b):
    l, r, fb = b
    if l is not None and l == r:
        s = str(l)
    else:
        s = ("" if l is None else str(l)) + ":" + ("" if r is None else str(r))
    return s + ("" if fb is None else "=" + fb)


def _mirror(rng, b, n, p=0.7):
    """rewrite a random subset of the negative indexes -k (1<=k<=n) into n+1-k, keeping the
    bound well-formed"""
    l, r, fb = b
    def mv(v):
        if v is not None and v < 0 and -n <= v and rng.random() < p:
            return n + 1 + v
        return v
    if l is not None and l == r:
        v = mv(l)
        return (v, v, fb)
    l2, r2 = mv(l), mv(r)
    if l2 is not None and r2 is not None and (l2 > 0) == (r2 > 0) and l2 > r2:
        return b            # would not be well-formed: leave it as written
    return (l2, r2, fb)


def c09(rng, count):
    out = []
    g = 0
    while len(out) < count:
        g += 1
        mode = rng.choice("ffcbl")
        n = rng.randint(1, 5)
        bs = [_sbound(rng, n) for _ in range(rng.randint(1, 3))]
        bs2 = [_mirror(rng, b, n) for b in bs]
        if bs2 == bs:
            bs2 = [_mirror(rng, b, n, 1.0) for b in bs]
        z = rng.random() < 0.15 and mode != "b"
        eol = b"\0" if z else b"\n"
        delim = rng.choice([b"-", b",", b"--", b"ab"])
        extra = []
        if mode == "f":
            extra += ["-d", delim]
            if rng.random() < 0.3: extra.append("-j")
            if rng.random() < 0.2: extra += ["-r", "/"]
            if rng.random() < 0.15: extra.append("--json")
            if rng.random() < 0.1: extra.append("-m")
        if mode == "l" and rng.random() < 0.2: extra.append("--no-join")
        if mode == "c" and rng.random() < 0.15: extra.append("--json")
        if rng.random() < 0.2: extra += ["--fallback-oob", "G"]
        if z: extra.append("-z")
        if "--json" in extra and "-r" in extra: extra = [e for e in extra if e not in ("-r", "/")]
        data = _uniform_input(rng, mode, n, delim, eol)
        for role, bb in (("orig", bs), ("mirrored", bs2)):
            argv = ["-" + mode, ",".join(_render(b) for b in bb)] + extra
            out.append(Case(argv, data, tags={"grp": g, "role": role, "n": n}))
    return out


def c10(rng, count):
    out = []
    g = 0
    while len(out) < count:
        g += 1
        kind = rng.choice(["general", "fast", "chars", "json", "stream", "regex"])
        delim = rng.choice([b"-", b",", b"--", b"ab"]) if kind in ("general", "json") else rng.choice([b"-", b","])
        z = rng.random() < 0.15
        eol = b"\0" if z else b"\n"
        if kind == "general":
            argv = ["-d", delim, "-f", gen_bounds(rng)] + field_opts(rng, delim)
            if not any(a in argv for a in ("-g", "-p", "-r", "-m")) and len(delim) == 1:
                argv.append(rng.choice(["-g", "-p"]))
        elif kind == "fast":
            argv = ["-d", delim, "-f", gen_bounds(rng, hi=6, neg=rng.choice([0, 0, 0.3]))] + field_opts(rng, delim, fast=True)
        elif kind == "chars":
            argv = ["-c", gen_bounds(rng, hi=4)]
        elif kind == "json":
            argv = ["--json", "-d", delim, "-f", gen_bounds(rng, fmt=0)] + (["-p"] if rng.random() < 0.3 else [])
        elif kind == "regex":
            argv = ["-e", rng.choice(["-+", "[-,]", "-|,,"]), "-f", gen_bounds(rng), "-r", "/"] + (["-p"] if rng.random() < 0.3 else [])
        else:
            argv = ["-M", "1", "-d", delim, "-f", gen_forward_bounds(rng)] + (["-j"] if rng.random() < 0.3 else [])
        if rng.random() < 0.3 and "--fallback-oob" not in argv:
            argv += ["--fallback-oob", "G"]
        if z: argv.append("-z")
        if kind == "chars":
            A = "".join(utf8_text(rng, 4).replace("\n", "").replace("\0", "") + eol.decode() for _ in range(rng.randint(1, 3))).encode()
            B = (eol.decode().join(utf8_text(rng, 4).replace("\n", "").replace("\0", "") for _ in range(rng.randint(0, 2)))).encode()
        else:
            alpha = pick_alphabet(rng, delim, eol)
            A = gen_input(rng, delim, alpha, eol, maxrec=3, final_eol_p=1.0, maxfields=7)
            if not A:
                A = eol
            B = gen_input(rng, delim, alpha, eol, maxrec=3, maxfields=7)
        for role, d in (("A", A), ("B", B), ("AB", A + B)):
            out.append(Case(argv, d, tags={"grp": g, "role": role}))
    return out


def c13(rng, count):
    """every mode / path with bounds that overshoot in either direction, on either side"""
    out = []
    k = max(1, count // 8)
    def hot(b):   # more out-of-range indexes and more fallbacks
        return b
    out += fields(rng, 2 * k) + [c for c in fast(rng, k)] + bytes_mode(rng, k) + lines(rng, k)
    out += chars(rng, k) + jsonf(rng, k) + stream(rng, k)
    return out


def c15(rng, count):
    out = []
    g = 0
    while len(out) < count:
        g += 1
        mode = rng.choice("ffl")
        n = rng.randint(1, 5)
        bs = []
        for _ in range(rng.randint(1, 3)):
            b = _sbound(rng, n, over=0.0)
            bs.append((b[0], b[1], None))
        # resolve in python (the property's own arithmetic) to write the equivalent request
        def pos(v): return n + 1 + v if v < 0 else v
        eq = []
        ok = True
        for (l, r, _) in bs:
            s = 1 if l is None else pos(l)
            e = n if r is None else pos(r)
            if not (1 <= s <= e <= n):
                ok = False
                break
            if s > 1: eq.append("1:%d" % (s - 1) if s - 1 > 1 else "1")
            if e < n: eq.append("%d:" % (e + 1))
        if not ok:
            continue
        z = rng.random() < 0.15
        eol = b"\0" if z else b"\n"
        delim = rng.choice([b"-", b",", b"--"])
        extra = []
        if mode == "f":
            extra += ["-d", delim]
            r = rng.random()
            if r < 0.3: extra.append("-j")
            elif r < 0.5: extra += ["-r", "/"]
            elif r < 0.7: extra.append("--json")
        if z: extra.append("-z")
        data = _uniform_input(rng, mode, n, delim, eol)
        out.append(Case(["-" + mode, ",".join(_render(b) for b in bs), "-m"] + extra, data,
                        tags={"grp": g, "role": "complement", "empty": not eq}))
        if eq:
            out.append(Case(["-" + mode, ",".join(eq)] + extra + (["-g"] if (mode == "f" and "--json" not in extra and len(delim) == 1 and "-r" not in extra and False) else []),
                            data, tags={"grp": g, "role": "equivalent"}))
    return out


def c15_varied(rng, count):
    """-m on inputs whose records have different numbers of parts (correspondence only)"""
    out = []
    for _ in range(count):
        delim = rng.choice([b"-", b",", b"--", b"ab"])
        z = rng.random() < 0.15
        eol = b"\0" if z else b"\n"
        argv = ["-d", delim, "-f", gen_bounds(rng, hi=4, fb=0.1, fmt=0.1), "-m"]
        r = rng.random()
        if r < 0.25: argv.append("-j")
        elif r < 0.45: argv += ["-r", "/"]
        elif r < 0.6 and "{" not in argv[3]: argv.append("--json")
        if rng.random() < 0.15: argv.append("-p")
        if rng.random() < 0.15: argv.append("-s")
        if z: argv.append("-z")
        alpha = [c for c in b"abc xy" if bytes([c]) != eol]
        out.append(Case(argv, gen_input(rng, delim, alpha, eol, maxrec=4, maxfields=6)))
    return out
