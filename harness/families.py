"""Generator families: each returns a list of Case for one region of tuc's behaviour."""
from common import Case
from gen import *

DELIMS = [b"-", b"-", b",", b"--", b"ab", b"aba", b" ", b"\t", b"::", "é".encode(), b"a"]


def field_opts(rng, delim, fast=False):
    """a random point of the field-mode option lattice"""
    o = []
    if rng.random() < 0.2: o.append("-j")
    if rng.random() < 0.2: o.append("-s")
    if rng.random() < 0.25: o += ["-t", rng.choice("lrbLRB")]
    if rng.random() < 0.25: o += ["--fallback-oob", rng.choice(["", "G", "gg", "é", "-"])]
    if not fast:
        if rng.random() < 0.25: o.append("-g")
        if rng.random() < 0.25: o.append("-p")
        if rng.random() < 0.25: o += ["-r", rng.choice(["/", "", "--", "ab", "é", "$0", "\\n"])]
        if rng.random() < 0.1: o.append("-m")
    return o


def fields(rng, n):
    out = []
    for _ in range(n):
        delim = rng.choice(DELIMS)
        z = rng.random() < 0.2
        eol = b"\0" if z else b"\n"
        argv = ["-d", delim, "-f", gen_bounds(rng)] + field_opts(rng, delim) + (["-z"] if z else [])
        if rng.random() < 0.1:
            argv = argv[2:]  # default TAB delimiter
            delim = b"\t"
        alpha = pick_alphabet(rng, delim, eol)
        out.append(Case(argv, gen_input(rng, delim, alpha, eol)))
    return out


def fast(rng, n):
    out = []
    for _ in range(n):
        delim = rng.choice([b"-", b",", b" ", b"a", b"\t", b":"])
        z = rng.random() < 0.2
        eol = b"\0" if z else b"\n"
        argv = ["-d", delim, "-f", gen_bounds(rng, hi=6, neg=rng.choice([0, 0, 0.3]))] + field_opts(rng, delim, fast=True) + (["-z"] if z else [])
        alpha = pick_alphabet(rng, delim, eol)
        data = gen_input(rng, delim, alpha, eol, maxfields=8)
        for entry in ("main", "general", "fast"):
            out.append(Case(argv, data, entry=entry))
    return out


def bytes_mode(rng, n):
    out = []
    for _ in range(n):
        argv = ["-b", gen_bounds(rng, hi=6)]
        if rng.random() < 0.2: argv += ["--fallback-oob", rng.choice(["", "G", "zz"])]
        alpha = rng.choice([ALPHA_BIN, ALPHA_NASTY, ALPHA_TEXT])
        out.append(Case(argv, bytes(rng.choice(alpha) for _ in range(rng.randint(0, 8)))))
    return out


# valid and invalid byte sequences around every rule of UTF-8 validation
UTF8_BORDER = [b"\xc2\x80", b"\xc1\xbf", b"\xc0\x80", b"\xdf\xbf", b"\xe0\xa0\x80", b"\xe0\x9f\xbf", b"\xe0\x80\x80",
               b"\xed\x9f\xbf", b"\xed\xa0\x80", b"\xed\xbf\xbf", b"\xee\x80\x80", b"\xef\xbf\xbf", b"\xf0\x90\x80\x80",
               b"\xf0\x8f\xbf\xbf", b"\xf4\x8f\xbf\xbf", b"\xf4\x90\x80\x80", b"\xf5\x80\x80\x80", b"\xf8\x88\x80\x80\x80",
               b"\x80", b"\xbf", b"\xe2\x82", b"\xe2", b"\xf0\x9f\x98", b"a\xc2", b"\xc2a", b"\xe2\x82a", b"\xe2\x28\xa1",
               b"\xfe", b"\xff"]


def lines(rng, n):
    out = []
    for _ in range(n):
        z = rng.random() < 0.25
        eol = b"\0" if z else b"\n"
        fwd = rng.random() < 0.5
        b = gen_forward_bounds(rng, hi=5, strict=False, fmt=0.05) if fwd else gen_bounds(rng, hi=5, fmt=0.05)
        argv = ["-l", b] + (["-z"] if z else [])
        if rng.random() < 0.25: argv.append("--no-join")
        if rng.random() < 0.15: argv.append("-m")
        if rng.random() < 0.2: argv += ["--fallback-oob", rng.choice(["", "G"])]
        nl = rng.randint(0, 6)
        pool = [b"", b"a", b"bc", "é".encode(), b"l 3", b"\r", b"x\ry"] + ([b"\xff"] if rng.random() < 0.1 else [])
        if rng.random() < 0.25:
            # the borders of what from_utf8 accepts: shortest forms, surrogates, the last code point
            pool += [rand_scalar(rng).encode("utf-8", "surrogatepass") for _ in range(3)]
            pool += [rng.choice(UTF8_BORDER)]
        ls = [rng.choice(pool) for _ in range(nl)]
        data = eol.join(ls) + (eol if ls and rng.random() < 0.7 else b"")
        out.append(Case(argv, data))
    return out


def chars(rng, n):
    out = []
    for _ in range(n):
        z = rng.random() < 0.2
        eol = "\0" if z else "\n"
        argv = ["-c", gen_bounds(rng, hi=5, fbtext=["x", "", "é"])] + (["-z"] if z else [])
        if rng.random() < 0.2: argv.append("--json")
        if rng.random() < 0.2: argv += ["--fallback-oob", rng.choice(["", "G"])]
        if rng.random() < 0.1: argv.append("-m")
        recs = [utf8_text(rng, 6) for _ in range(rng.randint(0, 3))]
        data = eol.join(r.replace(eol, "") for r in recs) + (eol if recs and rng.random() < 0.7 else "")
        out.append(Case(argv, data.encode()))
    return out


def jsonf(rng, n):
    out = []
    for _ in range(n):
        delim = rng.choice(["-", ",", "--", "é", " "])
        argv = ["--json", "-d", delim, "-f", gen_bounds(rng, fmt=0.02, fbtext=["x", "", "é", "a,b", '"'])]
        for f in ("-g", "-p", "-s", "-m", "-z"):
            if rng.random() < 0.15: argv.append(f)
        if rng.random() < 0.2: argv += ["-t", rng.choice("lrb")]
        if rng.random() < 0.2: argv += ["--fallback-oob", rng.choice(["", "G", '"q"'])]
        eol = "\0" if "-z" in argv else "\n"
        recs = []
        for _ in range(rng.randint(0, 3)):
            fs = [utf8_text(rng, 3) for _ in range(rng.randint(1, 5))]
            recs.append(delim.join(f.replace(eol, "") for f in fs))
        data = eol.join(recs) + (eol if recs and rng.random() < 0.7 else "")
        out.append(Case(argv, data.encode()))
    return out


REGEXES = ["-", "[-,]", "-|,", "-+", "ab|a", "a|ab", "(ab)+", "[0-9]+", "é", "é+", "x|yy|zzz", "[ab]c", ",( )+", "(-|,)+"]


def regex(rng, n):
    out = []
    for _ in range(n):
        re_ = rng.choice(REGEXES)
        argv = ["-e", re_, "-f", gen_bounds(rng)]
        dense = rng.random() < 0.4
        if rng.random() < (0.8 if dense else 0.5): argv += ["-r", rng.choice(["/", "", "--", "$0", "$1x", "é", "-", "${0}", ",", "a", "x", " "])]
        for f in ("-g", "-p", "-s", "-m", "-j", "-z"):
            if rng.random() < ((0.45 if f in ("-g", "-p") else 0.2) if dense else 0.15): argv.append(f)
        if rng.random() < 0.3: argv += ["-t", rng.choice("lrb")]
        if rng.random() < 0.15 and "-r" not in argv: argv.append("--json")
        if rng.random() < 0.2: argv += ["--fallback-oob", rng.choice(["", "G", "x-y"])]
        eol = b"\0" if "-z" in argv else b"\n"
        alpha = [c for c in b"ab-,cxyz09 " + "é".encode() if c != eol[0]]
        recs = [bytes(rng.choice(alpha) for _ in range(rng.randint(0, 8))) for _ in range(rng.randint(0, 3))]
        data = eol.join(recs) + (eol if recs and rng.random() < 0.7 else b"")
        out.append(Case(argv, data))
    return out


def field_lattice(rng, mode="f"):
    """the literal-delimiter counterpart of regex_lattice: every subset of {-g,-p,-s,-m,-j} x {none, -r, --json}
    x trims x bounds shapes x one- and two-byte delimiters (field mode), or the options -c / -l take"""
    out = []
    shapes = ["2", "1:2", "2,1", "-1", "2:", ":2,4", "3=F", "-2:-1", "1,2,1", "2,2", "x{1}y{1}", "9", "1:9=F", "-9:2"]
    if mode == "f":
        flags = ["-g", "-p", "-s", "-m", "-j"]
        outs = [[], ["-r", "/"], ["--json"]]
        trims = [[], ["-t", "l"], ["-t", "r"], ["-t", "b"]]
        for mask in range(1 << len(flags)):
            fs = [f for i, f in enumerate(flags) if mask >> i & 1]
            for o in outs:
                for t in trims:
                    if t and rng.random() < 0.5:
                        continue
                    for b in rng.sample(shapes, 3):
                        if "--json" in o and "{" in b:
                            continue
                        d = rng.choice(["-", "-", "--"])
                        data = rng.choice([b"a-b-c-d-e\n", b"-a--b---c-\n\nx\n--\n", b"k-l\na-b-c-d-e-f-g\n", b"a-b", b"---\na\n"])
                        fb = ["--fallback-oob", "G"] if rng.random() < 0.3 else []
                        out.append(Case(["-d", d, "-f", b] + fs + o + t + fb, data))
    else:
        flags = {"c": ["-m", "--json", "-z"], "l": ["-m", "--no-join", "-z"]}[mode]
        for mask in range(1 << len(flags)):
            fs = [f for i, f in enumerate(flags) if mask >> i & 1]
            for b in shapes:
                if "--json" in fs and "{" in b:
                    continue
                eol = b"\0" if "-z" in fs else b"\n"
                for data in ([b"ab", "éa€".encode(), b"abcde", b""] if mode == "c" else [b"l1", b"l1" + eol + b"l2" + eol + b"l3", b"a" + eol + eol + b"c" + eol + b"d" + eol + b"e" + eol]):
                    fb = ["--fallback-oob", "G"] if rng.random() < 0.3 else []
                    out.append(Case(["-" + mode, b] + fs + fb, (data + eol + data[:2] + eol) if mode == "c" else data))
    return out


def with_default_bounds(rng, cases, p=0.06):
    """some of the field-mode cases once more without -f: the implicit selection (everything) is built by
    the program itself, not by the parser"""
    out = []
    for c in cases:
        if c.entry == "main" and b"-f" in c.argv and not c.tags and not c.seg and not c.extra and rng.random() < p:
            i = c.argv.index(b"-f")
            out.append(Case(c.argv[:i] + c.argv[i + 2:], c.stdin))
    return out


def c16_literal_pairs(rng, count):
    """-e X against -d X for an X without metacharacters: "everything else behaves as with a literal delimiter",
    so the two must print the same under every option set (-p and -j need a replacement with -e: such sets carry one)"""
    out = []
    g = 7 * 10 ** 6
    while len(out) < count:
        g += 1
        # X cannot overlap itself ("--" in "---" or "aa" in "aaa" is cut differently by construction: the literal
        # trimmer works from the end, regex matches are leftmost)
        x = rng.choice(["-", ",", "ab", "é", ";", "-,", "=>"])
        argv = ["-f", rng.choice(["1", "2", "1:2", "2:", "-1", "2,1", ":2,4", "1:", "3=F", "-2:-1", "x{1}y{2:}", "1,2,3"])]
        out_kind = rng.choice(["none", "r", "r", "rx", "json"])
        if out_kind == "r": argv += ["-r", rng.choice(["/", "", "+-", "é"])]
        if out_kind == "rx": argv += ["-r", rng.choice([x, x + x, "a" + x])]
        if out_kind == "json" and "{" not in argv[1]: argv.append("--json")
        has_r = out_kind in ("r", "rx") or "--json" in argv
        for f_, pr in (("-g", 0.4), ("-s", 0.25), ("-m", 0.2), ("-z", 0.15)):
            if rng.random() < pr: argv.append(f_)
        # -p with -e rewrites the runs to R *before* cutting (the statement says so), which is the literal behaviour
        # only for an R that is not empty and occurs nowhere in the data
        if out_kind == "r" and argv[argv.index("-r") + 1] in ("/", "+-") and x not in ("-", "-,") and rng.random() < 0.6:
            argv[argv.index("-r") + 1] = "/"
            argv.append("-p")
        if out_kind in ("r", "rx") and rng.random() < 0.3: argv.append("-j")
        if rng.random() < 0.35: argv += ["-t", rng.choice("lrb")]
        if rng.random() < 0.25: argv += ["--fallback-oob", rng.choice(["", "G"])]
        eol = b"\0" if "-z" in argv else b"\n"
        xb = x.encode()
        parts = [b"a", b"b", b"", b"cd", xb[:1], "é".encode(), b" ", b"a" + xb[:1]]
        recs = []
        for _ in range(rng.randint(1, 3)):
            k = rng.randint(0, 6)
            rec = b""
            for i in range(k):
                rec += rng.choice(parts)
                if i < k - 1: rec += xb * rng.choice([1, 1, 1, 2, 3])
            if rng.random() < 0.2: rec = xb + rec
            if rng.random() < 0.2: rec = rec + xb
            recs.append(rec.replace(eol, b""))
        data = eol.join(recs) + (eol if rng.random() < 0.7 else b"")
        out.append(Case(["-d", x] + argv, data, tags={"grp": g, "role": "literal"}))
        out.append(Case(["-e", x] + argv, data, tags={"grp": g, "role": "regex"}))
    return out


def trim_overlap():
    """delimiters that overlap with themselves, every short record over their alphabet, every trim: what is left
    after trimming one end may be shorter than the delimiter while the record still ends (or starts) with it"""
    import itertools
    out = []
    for d, alpha in (("--", "-a"), ("aa", "ab"), ("aba", "ab"), ("abab", "ab"), ("é", None)):
        if alpha is None:
            recs = ["é", "éé", "aéé", "ééa", "é\xc3".encode("latin-1").decode("latin-1")]
            recs = [r.encode() for r in recs[:4]] + [b"\xc3\xa9\xc3", b"\xa9\xc3\xa9"]
        else:
            recs = ["".join(t).encode() for L in range(1, 7) for t in itertools.product(alpha, repeat=L)]
        for rec in recs:
            for t in "lrb":
                for extra in ([], ["-g"], ["-p"]):
                    out.append(Case(["-d", d, "-t", t, "-f", "1:"] + extra, rec + b"\n"))
    return out


def regex_lattice(rng):
    """every subset of the options that meet on the regex path, times a few bounds shapes, on records
    with more fields than any bound names (empty fields and runs of matches included)"""
    import itertools
    out = []
    flags = ["-g", "-p", "-s", "-m", "-j"]
    # replacement texts: plain, and texts that themselves hold matches of the regex (they must be printed as they are)
    outs = [[], ["-r", "/"], ["--json"], ["-r", ",,"], ["-r", ";"]]
    trims = [[], ["-t", "l"], ["-t", "r"], ["-t", "b"]]
    shapes = ["2", "1:2", "2,1", "-1", "2:", ":2,4", "3=F", "-2:-1", "1:"]
    datas = [b"a,b;c,d;e\n", b",a,,b;;c,\n\nx\n;;\n", b"k;l\na,b,c,d,e,f,g\n", b"a;b"]
    for mask in range(1 << len(flags)):
        fs = [f for i, f in enumerate(flags) if mask >> i & 1]
        for o in outs:
            for t in trims:
                if rng.random() < 0.5 and t:
                    continue
                for b in rng.sample(shapes, 3):
                    out.append(Case(["-e", rng.choice(["[,;]", ",|;", "[,;]+"]), "-f", b] + fs + o + t, rng.choice(datas)))
    return out


def stream(rng, n):
    out = []
    for _ in range(n):
        delim = rng.choice([b"-", b",", b" "])
        z = rng.random() < 0.2
        eol = b"\0" if z else b"\n"
        argv = ["-M", "1", "-d", delim, "-f", gen_forward_bounds(rng)] + (["-z"] if z else [])
        if rng.random() < 0.3: argv.append("-j")
        if rng.random() < 0.25: argv += ["-r", rng.choice(["/", "+"])]
        if rng.random() < 0.3: argv += ["--fallback-oob", rng.choice(["", "G", "gg"])]
        alpha = pick_alphabet(rng, delim, eol)
        data = gen_input(rng, delim, alpha, eol, maxfields=7, run_p=0.15)
        k = len(data)
        seg = []
        if k and rng.random() < 0.8:
            left = k
            while left > 0:
                s = rng.randint(1, min(left, rng.choice([1, 2, 3, 8])))
                seg.append(s); left -= s
        out.append(Case(argv, data, entry="stream", seg=seg))
        if rng.random() < 0.3:
            out.append(Case(argv, data, entry="main", seg=seg))
    return out


# ---------------------------------------------------------------- relational families
# Cases that belong together carry tags = {"grp": <id>, "role": <name>}; the property's oracle
# evaluates the relation on the implementation's own results.

def _uniform_input(rng, mode, n, delim=b"-", eol=b"\n", nrec=None):
    """an input whose records all have exactly n parts (or an input of n bytes / n lines)"""
    if mode == "b":
        return bytes(rng.choice(ALPHA_BIN) for _ in range(n))
    if mode == "l":
        pool = [b"", b"a", b"bc", "é".encode(), b"l 3", b"\r"]
        ls = [rng.choice(pool) for _ in range(n)]
        if ls and ls[-1] == b"" and rng.random() < 0.5:
            ls[-1] = b"z"
        return eol.join(ls) + (eol if (ls and (ls[-1] == b"" or rng.random() < 0.7)) else b"")
    recs = []
    for _ in range(nrec or rng.randint(1, 3)):
        if mode == "c":
            pool = [c for c in ["a", "b", "é", "€", "𝄞", " ", "-", "\t"] if c.encode() != eol]
            recs.append("".join(rng.choice(pool) for _ in range(n)).encode())
        else:
            alpha = [c for c in b"abc xyz" if bytes([c]) != eol and c not in delim]
            fs = [bytes(rng.choice(alpha) for _ in range(rng.randint(0 if n > 1 else 1, 3))) for _ in range(n)]
            if n > 0 and all(f == b"" for f in fs):
                fs[0] = b"q"
            recs.append(delim.join(fs))
    return eol.join(recs) + (eol if rng.random() < 0.7 else b"")


def _sbound(rng, n, over=0.15):
    """structured bound (l, r, fb) with indexes mostly within +-n"""
    def idx():
        k = rng.randint(1, max(1, n)) if rng.random() > over else n + rng.randint(1, 2)
        return -k if rng.random() < 0.5 else k
    r = rng.random()
    if r < 0.4:
        v = idx(); b = (v, v)
    elif r < 0.7:
        a, z = idx(), idx()
        if (a > 0) == (z > 0) and a > z:
            a, z = z, a
        b = (a, z)
    elif r < 0.85:
        b = (idx(), None)
    else:
        b = (None, idx())
    fb = rng.choice([None, None, None, "x", ""])
    return b + (fb,)


def _render(b):
    l, r, fb = b
    if l is not None and l == r:
        s = str(l)
    else:
        s = ("" if l is None else str(l)) + ":" + ("" if r is None else str(r))
    return s + ("" if fb is None else "=" + fb)


def _mirror(rng, b, n, p=0.7):
    """rewrite a random subset of the negative indexes -k (1<=k<=n) into n+1-k, keeping the
    bound well-formed"""
    l, r, fb = b
    def mv(v):
        if v is not None and v < 0 and -n <= v and rng.random() < p:
            return n + 1 + v
        return v
    if l is not None and l == r:
        v = mv(l)
        return (v, v, fb)
    l2, r2 = mv(l), mv(r)
    if l2 is not None and r2 is not None and (l2 > 0) == (r2 > 0) and l2 > r2:
        return b            # would not be well-formed: leave it as written
    return (l2, r2, fb)


def c09(rng, count):
    out = []
    g = 0
    while len(out) < count:
        g += 1
        mode = rng.choice("ffcbbl")
        n = rng.randint(1, 9) if mode == "b" else rng.randint(1, 5)
        bs = [_sbound(rng, n) for _ in range(rng.randint(1, 3))]
        bs2 = [_mirror(rng, b, n) for b in bs]
        if bs2 == bs:
            bs2 = [_mirror(rng, b, n, 1.0) for b in bs]
        z = rng.random() < 0.15 and mode != "b"
        eol = b"\0" if z else b"\n"
        delim = rng.choice([b"-", b",", b"--", b"ab"])
        extra = []
        if mode == "f":
            extra += ["-d", delim]
            if rng.random() < 0.3: extra.append("-j")
            if rng.random() < 0.2: extra += ["-r", "/"]
            if rng.random() < 0.15: extra.append("--json")
            if rng.random() < 0.1: extra.append("-m")
        if mode == "l" and rng.random() < 0.2: extra.append("--no-join")
        if mode == "c" and rng.random() < 0.15: extra.append("--json")
        if rng.random() < 0.2: extra += ["--fallback-oob", "G"]
        if z: extra.append("-z")
        if "--json" in extra and "-r" in extra: extra = [e for e in extra if e not in ("-r", "/")]
        data = _uniform_input(rng, mode, n, delim, eol)
        if mode == "l" and n > 1 and rng.random() < 0.08:
            # "every input": one line that is not valid UTF-8 (the line count stays n)
            ls = data.split(eol)
            k = rng.randrange(n)
            ls[k] = rng.choice([b"\xff", b"a\xc3", b"\xe2\x82"])
            data = eol.join(ls)
        for role, bb in (("orig", bs), ("mirrored", bs2)):
            argv = ["-" + mode, ",".join(_render(b) for b in bb)] + extra
            out.append(Case(argv, data, tags={"grp": g, "role": role, "n": n}))
            if role == "orig" and len(data) > 1 and rng.random() < 0.5:
                # the same request with stdin arriving in pieces (read shim)
                out.append(Case(argv, data, seg=_rand_seg(rng, len(data)), tags={"grp": g, "role": "orig_seg", "n": n}))
    return out


def c10(rng, count):
    out = []
    g = 0
    while len(out) < count:
        g += 1
        kind = rng.choice(["general", "fast", "chars", "json", "stream", "regex"])
        delim = rng.choice([b"-", b",", b"--", b"ab"]) if kind in ("general", "json") else rng.choice([b"-", b","])
        z = rng.random() < 0.15
        eol = b"\0" if z else b"\n"
        if kind == "general":
            argv = ["-d", delim, "-f", gen_bounds(rng)] + field_opts(rng, delim)
            if not any(a in argv for a in ("-g", "-p", "-r", "-m")) and len(delim) == 1:
                argv.append(rng.choice(["-g", "-p"]))
        elif kind == "fast":
            argv = ["-d", delim, "-f", gen_bounds(rng, hi=6, neg=rng.choice([0, 0, 0.3]))] + field_opts(rng, delim, fast=True)
        elif kind == "chars":
            argv = ["-c", gen_bounds(rng, hi=4)]
        elif kind == "json":
            argv = ["--json", "-d", delim, "-f", gen_bounds(rng, fmt=0)] + (["-p"] if rng.random() < 0.3 else [])
        elif kind == "regex":
            argv = ["-e", rng.choice(["-+", "[-,]", "-|,,"]), "-f", gen_bounds(rng), "-r", "/"] + (["-p"] if rng.random() < 0.3 else [])
        else:
            argv = ["-M", "1", "-d", delim, "-f", gen_forward_bounds(rng)] + (["-j"] if rng.random() < 0.3 else [])
        if rng.random() < 0.3 and "--fallback-oob" not in argv:
            argv += ["--fallback-oob", "G"]
        if z: argv.append("-z")
        if kind == "chars":
            A = "".join(utf8_text(rng, 4).replace("\n", "").replace("\0", "") + eol.decode() for _ in range(rng.randint(1, 3))).encode()
            B = (eol.decode().join(utf8_text(rng, 4).replace("\n", "").replace("\0", "") for _ in range(rng.randint(0, 2)))).encode()
        else:
            alpha = pick_alphabet(rng, delim, eol)
            A = gen_input(rng, delim, alpha, eol, maxrec=3, final_eol_p=1.0, maxfields=7)
            if not A:
                A = eol
            B = gen_input(rng, delim, alpha, eol, maxrec=3, maxfields=7)
        for role, d in (("A", A), ("B", B), ("AB", A + B)):
            if kind == "stream" and rng.random() < 0.7:
                out.append(Case(argv, d, entry="stream", seg=_rand_seg(rng, len(d)) if d else [], tags={"grp": g, "role": role}))
            else:
                out.append(Case(argv, d, tags={"grp": g, "role": role}))
        if kind != "stream" and len(A + B) > 1 and rng.random() < 0.4:
            # the concatenation once more, arriving in pieces (read shim): what the reader carries over from
            # one read to the next must not show either
            out.append(Case(argv, A + B, seg=_rand_seg(rng, len(A + B)), tags={"grp": g, "role": "AB_seg"}))
    return out


def c13(rng, count):
    """every mode / path with bounds that overshoot in either direction, on either side"""
    out = []
    k = max(1, count // 8)
    def hot(b):   # more out-of-range indexes and more fallbacks
        return b
    out += fields(rng, 2 * k) + [c for c in fast(rng, k)] + bytes_mode(rng, k) + lines(rng, k)
    out += chars(rng, k) + jsonf(rng, k) + stream(rng, k)
    return out


def c15(rng, count):
    out = []
    g = 0
    while len(out) < count:
        g += 1
        mode = rng.choice("ffl")
        n = rng.randint(1, 5)
        bs = []
        for _ in range(rng.randint(1, 3)):
            b = _sbound(rng, n, over=0.0)
            bs.append((b[0], b[1], None))
        # resolve in python (the property's own arithmetic) to write the equivalent request
        def pos(v): return n + 1 + v if v < 0 else v
        eq = []
        ok = True
        for (l, r, _) in bs:
            s = 1 if l is None else pos(l)
            e = n if r is None else pos(r)
            if not (1 <= s <= e <= n):
                ok = False
                break
            if s > 1: eq.append("1:%d" % (s - 1) if s - 1 > 1 else "1")
            if e < n: eq.append("%d:" % (e + 1))
        if not ok:
            continue
        z = rng.random() < 0.15
        eol = b"\0" if z else b"\n"
        delim = rng.choice([b"-", b",", b"--"])
        extra = []
        if mode == "f":
            extra += ["-d", delim]
            r = rng.random()
            if r < 0.3: extra.append("-j")
            elif r < 0.5: extra += ["-r", "/"]
            elif r < 0.7: extra.append("--json")
            elif r < 0.8: extra.append("--no-join")
        if mode == "l" and rng.random() < 0.35: extra.append("--no-join")
        if z: extra.append("-z")
        data = _uniform_input(rng, mode, n, delim, eol)
        out.append(Case(["-" + mode, ",".join(_render(b) for b in bs), "-m"] + extra, data,
                        tags={"grp": g, "role": "complement", "empty": not eq}))
        if eq:
            out.append(Case(["-" + mode, ",".join(eq)] + extra + (["-g"] if (mode == "f" and "--json" not in extra and len(delim) == 1 and "-r" not in extra and False) else []),
                            data, tags={"grp": g, "role": "equivalent"}))
    return out


def c15_varied(rng, count):
    """-m on inputs whose records have different numbers of parts (correspondence only)"""
    out = []
    for _ in range(count):
        delim = rng.choice([b"-", b",", b"--", b"ab"])
        z = rng.random() < 0.15
        eol = b"\0" if z else b"\n"
        argv = ["-d", delim, "-f", gen_bounds(rng, hi=4, fb=0.1, fmt=0.1), "-m"]
        r = rng.random()
        if r < 0.25: argv.append("-j")
        elif r < 0.45: argv += ["-r", "/"]
        elif r < 0.6 and "{" not in argv[3]: argv.append("--json")
        if rng.random() < 0.15: argv.append("-p")
        if rng.random() < 0.15: argv.append("-s")
        if z: argv.append("-z")
        alpha = [c for c in b"abc xy" if bytes([c]) != eol]
        out.append(Case(argv, gen_input(rng, delim, alpha, eol, maxrec=4, maxfields=6)))
    return out


# ---------------------------------------------------------------- C02 .. C19 families

def c02(rng, count):
    """the same options through the fast lane and through the general path (lib channel),
    plus the real binary"""
    out = []
    g = 0
    while len(out) < count:
        g += 1
        delim = rng.choice([b"-", b",", b" ", b"a", b"\t", b":"])
        z = rng.random() < 0.2
        eol = b"\0" if z else b"\n"
        neg = rng.choice([0, 0, 0, 0.3])
        argv = ["-d", delim, "-f", gen_bounds(rng, hi=rng.choice([3, 6]), neg=neg, fb=0.2)] + field_opts(rng, delim, fast=True) + (["-z"] if z else [])
        alpha = pick_alphabet(rng, delim, eol)
        data = gen_input(rng, delim, alpha, eol, maxfields=9, run_p=0.1)
        for entry in ("general", "fast"):
            out.append(Case(argv, data, entry=entry, tags={"grp": g, "role": entry}))
        if rng.random() < 0.4:
            out.append(Case(argv, data, entry="main", tags={"grp": g, "role": "cli"}))
    return out


def _count_fields(rec, d):
    return rec.count(d) + 1


def c03(rng, count):
    """-M against the same invocation without -M, on records where every requested range is
    wholly present or wholly absent"""
    out = []
    g = 0
    tries = 0
    while len(out) < count and tries < count * 20:
        tries += 1
        delim = rng.choice([b"-", b",", b" "])
        z = rng.random() < 0.2
        eol = b"\0" if z else b"\n"
        if not z and rng.random() < 0.04:
            delim = b"\n"          # the delimiter is the terminator itself: every record has one field
        # structured forward bounds
        cur = 0
        bs = []
        for i in range(rng.randint(1, 3)):
            l = cur + rng.randint(1, 2)
            k = rng.random()
            if k < 0.5: b = (l, l)
            elif k < 0.8: b = (l, l + rng.randint(1, 2))
            else:
                b = (l, None)
            fb = rng.choice([None, None, "x", "", "x-y"])
            bs.append(b + (fb,))
            if b[1] is None:
                break
            cur = b[1]
        btxt = ",".join(_render(b) for b in bs)
        if rng.random() < 0.3:
            texts = ["", "x", " ", "{{", "}}", "\\n", "é", "<>", "-"]
            btxt = rng.choice(texts) + "".join("{" + _render(b) + "}" + rng.choice(texts) for b in bs)
        opts = []
        if rng.random() < 0.3: opts.append("-j")
        if rng.random() < 0.25: opts += ["-r", rng.choice(["/", "+"])]
        if rng.random() < 0.4: opts += ["--fallback-oob", rng.choice(["", "G", "gg"])]
        if z: opts.append("-z")
        alpha = pick_alphabet(rng, delim, eol)
        data = gen_input(rng, delim, alpha, eol, maxfields=7, run_p=0.15)
        recs = data.split(eol)
        if recs and recs[-1] == b"":
            recs = recs[:-1]
        ok = True
        for r in recs:
            if r == b"":
                continue
            n = _count_fields(r, delim)
            for (l, rr, _) in bs:
                if rr is not None and l <= n < rr:
                    ok = False
        if not ok:
            continue
        g += 1
        base = ["-d", delim, "-f", btxt] + opts
        k = len(data)
        seg = []
        if k and rng.random() < 0.5:
            left = k
            while left > 0:
                s = rng.randint(1, min(left, rng.choice([1, 2, 3, 8])))
                seg.append(s); left -= s
        out.append(Case(["-M", "1"] + base, data, entry="stream", seg=seg, tags={"grp": g, "role": "stream"}))
        out.append(Case(base, data, entry="main", tags={"grp": g, "role": "plain"}))
        if rng.random() < 0.3:
            out.append(Case(["-M", "1"] + base, data, entry="main", tags={"grp": g, "role": "stream_cli"}))
    return out


def _rand_seg(rng, k):
    seg = []
    left = k
    mx = rng.choice([1, 2, 3, 8])
    while left > 0:
        s = rng.randint(1, min(left, mx))
        seg.append(s); left -= s
    return seg


def c04(rng, count, exhaustive_upto=0):
    """one input, several segmentations (lib channel with a BufRead double; the real binary
    through the read shim)"""
    out = []
    g = 0
    while len(out) < count:
        g += 1
        delim = rng.choice([b"-", b","])
        z = rng.random() < 0.15
        eol = b"\0" if z else b"\n"
        argv = ["-M", "1", "-d", delim, "-f", gen_forward_bounds(rng, hi=5)] + (["-z"] if z else [])
        if rng.random() < 0.3: argv.append("-j")
        if rng.random() < 0.25: argv += ["-r", "/"]
        if rng.random() < 0.35: argv += ["--fallback-oob", rng.choice(["", "G"])]
        alpha = [c for c in (list(b"ab") + [delim[0]]) if c != eol[0]]
        data = gen_input(rng, delim, alpha, eol, maxrec=3, maxfields=5, maxlen=3, run_p=0.2)
        if not data:
            data = rng.choice([eol, delim, b"a"])
        k = len(data)
        out.append(Case(argv, data, entry="stream", seg=[], tags={"grp": g, "role": "whole"}))
        if k <= exhaustive_upto:
            for mask in range(1, 1 << (k - 1)):
                seg, run = [], 1
                for i in range(k - 1):
                    if mask >> i & 1:
                        seg.append(run); run = 1
                    else:
                        run += 1
                seg.append(run)
                out.append(Case(argv, data, entry="stream", seg=seg, tags={"grp": g, "role": "seg%d" % mask}))
        else:
            out.append(Case(argv, data, entry="stream", seg=[1] * k, tags={"grp": g, "role": "bytewise"}))
            for i in range(3):
                out.append(Case(argv, data, entry="stream", seg=_rand_seg(rng, k), tags={"grp": g, "role": "rand%d" % i}))
        if rng.random() < 0.25:
            out.append(Case(argv, data, entry="main", seg=_rand_seg(rng, k), tags={"grp": g, "role": "cli_seg"}))
            out.append(Case(argv, data, entry="main", seg=[], tags={"grp": g, "role": "cli_whole"}))
    return out


def c05(rng, count):
    """line mode: the forward reader, the buffered one, and pairs of equivalent requests"""
    out = lines(rng, count // 2)
    g = 0
    while len(out) < count:
        g += 1
        n = rng.randint(1, 5)
        z = rng.random() < 0.2
        eol = b"\0" if z else b"\n"
        # ascending positive request resolvable on n lines
        cur = 0
        bs = []
        for i in range(rng.randint(1, 3)):
            if cur >= n: break
            l = rng.randint(max(1, cur), n)
            r = rng.choice([l, rng.randint(l, n), None])
            bs.append((l, r, None))
            if r is None: break
            cur = r
        if not bs:
            continue
        # an equivalent request that forces buffering: one index written negatively
        bs2 = list(bs)
        i = rng.randrange(len(bs2))
        l, r, _ = bs2[i]
        if rng.random() < 0.5 or r is None:
            bs2[i] = (l - n - 1, r if r is None else r - n - 1, None) if (r is None or True) else bs2[i]
        else:
            bs2[i] = (l - n - 1, r - n - 1, None)
        opts = (["-z"] if z else []) + (["--no-join"] if rng.random() < 0.3 else [])
        data = _uniform_input(rng, "l", n, eol=eol)
        if data in (b"", eol):
            continue
        out.append(Case(["-l", ",".join(_render(b) for b in bs)] + opts, data, tags={"grp": g, "role": "forward"}))
        out.append(Case(["-l", ",".join(_render(b) for b in bs2)] + opts, data, tags={"grp": g, "role": "buffered"}))
    return out


def c07(rng, count):
    out = []
    for _ in range(count):
        z = rng.random() < 0.2
        eol = "\0" if z else "\n"
        fm = rng.random() < 0.2
        argv = ["-c", gen_bounds(rng, hi=5, fb=0.15, fmt=0.2 if not fm else 0.6, fbtext=["x", "", "é"])] + (["-z"] if z else [])
        if rng.random() < 0.15 and "{" not in argv[1]: argv.append("--json")
        if rng.random() < 0.2: argv += ["--fallback-oob", rng.choice(["", "G"])]
        if rng.random() < 0.08: argv.append("-m")
        pool = ["a", "b", " ", "é", "ß", "€", "漢", "𝄞", "😀", "é", "́", "-", ".", "_", "1", "\t", "\r", "‍", " "]
        # the other mode's terminator is an ordinary character of a record (LF under -z, NUL otherwise)
        pool += ["\n", "\n"] if z else ["\0"]
        recs = []
        if rng.random() < 0.25:
            # a history of records of one byte length but different character structure (and empty ones
            # in between): state kept from one record to the next would be indistinguishable by length
            L = rng.randint(1, 8)
            for _ in range(rng.randint(2, 5)):
                if rng.random() < 0.15:
                    recs.append("")
                    continue
                if rng.random() < 0.35:
                    recs.append("".join(rng.choice("abxyz\"\\ 1") for _ in range(L)))
                    continue
                r, left = "", L
                while left > 0:
                    w = rng.choice([x for x in (1, 1, 2, 2, 3, 4) if x <= left])
                    r += {1: rng.choice("abq\"\\"), 2: rng.choice("éßñ"), 3: rng.choice("€漢‍"), 4: rng.choice("𝄞😀")}[w]
                    left -= w
                recs.append(r)
        for _ in range(rng.randint(0, 3) if not recs else 0):
            k = rng.choice([0, 1, 1, 2, 3, 4, 6])
            recs.append("".join((rand_scalar(rng) if rng.random() < 0.3 else rng.choice(pool)) for _ in range(k)).replace(eol, ""))
        data = eol.join(recs) + (eol if recs and rng.random() < 0.7 else "")
        out.append(Case(argv, data.encode()))
    return out


def c08_table():
    """serde_json's escape table, exhaustively: every ASCII character and selected others as a field of its own
    and next to plain text, in -f and -c mode (NUL under -z only, LF without -z only)"""
    out = []
    cps = list(range(0, 128)) + [0x80, 0xFF, 0x7FF, 0x800, 0x2028, 0x2029, 0xD7FF, 0xE000, 0xFFFD, 0xFFFF, 0x10000, 0x1F601, 0x10FFFF]
    for cp in cps:
        ch = chr(cp)
        for z in (False, True):
            eol = "\0" if z else "\n"
            if ch == eol or ch == ",":
                continue
            zf = ["-z"] if z else []
            out.append(Case(["--json", "-d", ",", "-f", "1,2"] + zf, ("a" + ch + "b," + ch + eol).encode("utf-8", "surrogatepass")))
            if z and cp not in (0, 10):
                continue
            out.append(Case(["--json", "-c", "1:3"] + zf, ("x" + ch + "y" + eol).encode("utf-8", "surrogatepass")))
    return out


def c08(rng, count):
    return c08_table() + jsonf(rng, (2 * count) // 3) + [c for c in c07(rng, count) if b"--json" in c.argv][: count // 3]


def c11(rng, count):
    """pairs (ARGS on I) / (-z ARGS on swap(I)) for every record/line mode"""
    sw = bytes.maketrans(b"\n\0", b"\0\n")
    out = []
    g = 0
    while len(out) < count:
        g += 1
        kind = rng.choice(["general", "fast", "chars", "lines", "stream"])
        delim = rng.choice([b"-", b",", b"--"]) if kind in ("general", "json") else rng.choice([b"-", b","])
        if kind == "general":
            argv = ["-d", delim, "-f", gen_bounds(rng, fillers=["", "x", " ", "{{", "é"])] + [a for a in field_opts(rng, delim)]
            if "\\n" in argv: argv = [a if a != "\\n" else "/" for a in argv]
            if not any(a in argv for a in ("-g", "-p", "-r", "-m")) and len(delim) == 1: argv.append("-g")
        elif kind == "fast":
            argv = ["-d", delim, "-f", gen_bounds(rng, fillers=["", "x", " ", "}}"])] + field_opts(rng, delim, fast=True)
        elif kind == "chars":
            argv = ["-c", gen_bounds(rng, hi=4, fmt=0.1, fillers=["", "x"])]
        elif kind == "lines":
            argv = ["-l", rng.choice([gen_forward_bounds(rng, hi=4, strict=False, fmt=0), gen_bounds(rng, hi=4, fmt=0)])]
            r = rng.random()
            if r < 0.3: argv.append("--no-join")
            elif r < 0.55: argv.append("-j")
            elif r < 0.65: argv += ["-r", rng.choice(["/", "xy"])]
        elif kind == "json":
            argv = ["--json", "-d", delim, "-f", gen_bounds(rng, fmt=0)]
        else:
            argv = ["-M", "1", "-d", delim, "-f", gen_forward_bounds(rng, fmt=0.2)] + (["-j"] if rng.random() < 0.3 else [])
        # one case in five also holds bytes that are not valid UTF-8 ("every input")
        dirty = rng.random() < 0.2
        if kind in ("chars", "lines", "json"):
            pool = [b"a", b"b", "é".encode(), b"\r", b"\n", b"\0", b" ", delim] + ([b"\xff", b"\xc3", b"\xe2\x82"] if dirty else [])
            data = b"".join(rng.choice(pool) for _ in range(rng.randint(0, 10)))
        else:
            alpha = list(b"ab\r\n\0\0\n ") + [delim[0]] + (list(b"\xff\xc3\x80") if dirty else [])
            data = bytes(rng.choice(alpha) for _ in range(rng.randint(0, 12)))
        if any("\\n" in a for a in argv if isinstance(a, str)):
            continue        # option text that renders to LF is not neutral under the exchange
        out.append(Case(argv, data, tags={"grp": g, "role": "lf"}))
        out.append(Case(argv + ["-z"], data.translate(sw), tags={"grp": g, "role": "nul"}))
        if kind == "stream" and data:
            # the same pair through the library under one random segmentation, so that the skip to the
            # end of a record, a field and a terminator all get split across reads
            g += 1
            seg, left = [], len(data)
            while left > 0:
                k = rng.randint(1, min(left, rng.choice([1, 2, 3, 5])))
                seg.append(k); left -= k
            out.append(Case(argv, data, entry="stream", seg=seg, tags={"grp": g, "role": "lf"}))
            out.append(Case(argv + ["-z"], data.translate(sw), entry="stream", seg=seg, tags={"grp": g, "role": "nul"}))
    return out


def c11_big(rng):
    """the exchange on inputs larger than the 64 KiB buffers: a long record (LF, NUL and CR inside as ordinary
    bytes of the other mode) followed by short ones; decided by the oracle on the implementation"""
    sw = bytes.maketrans(b"\n\0", b"\0\n")
    out = []
    g = 2 * 10 ** 6
    long_tail = b"k-v-" + (b"ab\0cd\r-" * 9000) + b"end"          # > 64 KiB, NUL and CR inside, no LF
    inputs = [long_tail + b"\n" + b"c-d\0x-e\n" + b"f-g-h\n",
              b"s-t\n" + long_tail + b"\n" + b"\n" + b"u-v-w",
              (b"p-q-r\0-z\n") * 9000]
    plans = [["-M", "1", "-d", "-", "-f", "1"], ["-M", "1", "-d", "-", "-f", "2"], ["-M", "1", "-d", "-", "-f", "1,2", "-j"],
             ["-M", "1", "-d", "-", "-f", "2:"], ["-d", "-", "-f", "2"], ["-d", "-", "-f", "-1", "-g"], ["-d", "-", "-f", "1,3=F", "-p"],
             ["-l", "2"], ["-l", "-1"], ["-l", "1,3", "--no-join"], ["-c", "1:3"]]
    for data in inputs:
        for argv in plans:
            g += 1
            t = {"grp": g, "nomodel": True}
            out.append(Case(argv, data, tags=dict(t, role="lf")))
            out.append(Case(argv + ["-z"], data.translate(sw), tags=dict(t, role="nul")))
    return out


BIG = ["2147483647", "-2147483648", "2147483648", "-2147483649", "46341", "65536", "-65536", "60000:50000", "99999999999999999999",
       "1:2000000000", "-2000000000:", "0", "-0", "+1", "1:-1", "-1:1", "4294967297"]
WEIRD = ["", " ", "{", "}", "{{", "}}", "{}", "{1", "1}", "{1}}", "{1}}}", "{{1}", "{1{2}", "=", "=x", ":", ":=x", "1=", "1:2:3", ",", "1,,2", "é",
         "{1}\\n", "\\", "a", "1a", "--", "-", "+", "1:+2", "{1,2=x}", "{1=a}b}", "\t"]


REGEX_ADV = (["(?x)a#", "(?x) , # comma", "(?x)a # c\n", "(?x)#", "a#", "(?i)a", "(?s).", "(?m)^", "(?m)$", "(?U)a+", "(?-u)a", "(?-u:\\xff)",
              "\\Qa", "a\\", "[a", "a)", "(a", "(?P<n>a)", "(?P<n>a)|(?P<n>b)", "(?<n>-)", "\\1", "(a)\\1", "a{2,1}", "a{,2}", "a**", "+", "?", "*a", "|", "a||b",
              "()", "(?:)", "^", "$", "\\b", "\\B", "a*", "-*", "(-*)*", "(a|)+", "\\z", "\\A", "(?x)", "\\pL", "\\p{Greek}", "\\p{Nope}", "[[:alpha:]]",
              "[^-]", ".", "\\n", "\\x00", "\\u{10FFFF}", "\\u{110000}", "a{1000}", "(?:a{1000}){20}", "\\w{300}", "(\\w{60}){60}", "\\pL{2000}",
              "a{4294967296}", "a{99999999999999999999}"]
             + ["(" * k + "-" + ")" * k for k in (50, 200, 247, 248, 249, 250, 251, 300)]
             + ["(?:" * k + "-" + ")" * k for k in (248, 249, 250)])


def c12(rng, count, exhaustive_len=3):
    """adversarial argv x stdin; every case must end with status 0 or 1"""
    out = []
    stdin_pool = [b"", b"\n", b"a", b"a-b-c\n", b"a-b\nc", b"\xff\xfe-\x80\n", b"\0\0", b"--\n--", b"a\r\n", "é-€\n".encode(), b"-", b"a" * 70]
    modes = ["-f", "-c", "-b", "-l"]
    # bounded-exhaustive short bounds strings
    alpha = ["1", "2", "-", ":", "=", "{", "}", ",", "a", "é"]
    import itertools
    strs = []
    for L in range(1, exhaustive_len + 1):
        strs += ["".join(t) for t in itertools.product(alpha, repeat=L)]
    for s in strs:
        m = modes[hash(s) % 4] if len(s) > 2 else None
        for mode in ([m] if m else modes):
            out.append(Case([mode, s] + (["-d", "-"] if mode == "-f" else []), b"a-b-c\nd-e\n"))
    # adversarial pools
    flags = ["-g", "-p", "-s", "-z", "-m", "-j", "--no-join", "--json", "-V", "-h"]
    while len(out) < count + len(strs) * 2:
        mode = rng.choice(modes)
        # half of the argument vectors carry well-formed bounds, so that what the options do at run time
        # (not only how they are rejected) is exercised in every combination
        wellformed = rng.random() < 0.5
        b = gen_bounds(rng) if wellformed else rng.choice(BIG + WEIRD + [gen_bounds(rng)])
        if not wellformed and rng.random() < 0.3:
            b = b + "," + rng.choice(BIG + WEIRD)
        argv = [mode, b]
        if rng.random() < 0.6: argv += ["-d", rng.choice(["-", "", "--", "é", "\n", "a"])]
        for f in flags:
            if rng.random() < 0.12: argv.append(f)
        if rng.random() < 0.2: argv += ["-r", rng.choice(["", "/", "$0", "${", "\\"])]
        if rng.random() < 0.2: argv += ["-t", rng.choice(["l", "r", "b", "x", ""])]
        if rng.random() < 0.2: argv += ["-e", rng.choice(["-", "-", "[-,]", "-|b", "[", "(", "a|", "-+", "\\b", ".*", "", "(?i)a", "$", "^"])]
        if rng.random() < 0.15: argv += ["-M", rng.choice(["1", "0", "-1", "18014398509481984", "18446744073709551615", "x", "99999999999999999999"])]
        if rng.random() < 0.15: argv += ["--fallback-oob", rng.choice(["", "x"])]
        if rng.random() < 0.05: argv.append(rng.choice(["--fallback-oob", "--fallback-oob=", "-f", "--bogus", "-x", "-d"]))
        rng.shuffle(argv) if rng.random() < 0.1 else None
        out.append(Case(argv, rng.choice(stdin_pool)))
    # "time and memory do not grow with the numeric value of an index": indexes of every width in well-formed
    # requests on every path (ascending lists for -M and the forward line reader, any order elsewhere), on inputs
    # with several parts, so that the index meets the running part number in whatever arithmetic compares them
    bigs = ["46341", "65536", "1073741824", "2147483647", "-46341", "-65536", "-1073741824", "-2147483647", "-2147483648"]
    for big in bigs:
        pos = not big.startswith("-")
        shapes = [big, "1," + big, "2:" + big if pos else big + ":-1", "1,2," + big + "=F", "x{" + big + "}y", big + ":" if pos else ":" + big]
        for sh_ in shapes:
            for ctx in (["-d", "-", "-f", sh_], ["-d", "-", "-f", sh_, "-M", "1"], ["-d", "--", "-f", sh_], ["-d", "-", "-f", sh_, "--json"] if "{" not in sh_ else ["-d", "-", "-f", sh_, "-m"],
                        ["-l", sh_], ["-l", sh_, "-m"], ["-c", sh_], ["-b", sh_], ["-d", "-", "-f", sh_, "-m"], ["-e", "-", "-f", sh_]):
                out.append(Case(ctx + (["--fallback-oob", "G"] if rng.random() < 0.5 else []), rng.choice([b"a-b-c\nd-e-f\ng\nh-i\n", b"a-b-c-d-e", b"l1\nl2\nl3\nl4\n"])))
    # long values with multi-byte characters at every alignment, for every option that takes a value (what
    # is echoed in a message or cut at a fixed width must not split a character), and values that look like options
    for L in range(1, 24):
        for ch in ("é", "€", "😁"):
            v = "x" * L + ch * 6
            for argv in (["-f", v], ["-f", "1:" + v], ["-c", v + ":"], ["-b", "{" + v + "}"], ["-l", v], ["-d", v, "-f", "1"], ["-f", "1", "-d", "-", "-r", v],
                         ["-f", "1=" + v, "-d", "-"], ["-f", "1", "-t", v], ["-f", "1", "-M", v], ["-f", "1", "-e", v], ["--" + v], ["-f", "2", "--fallback-oob", v]):
                if rng.random() < 0.34:
                    out.append(Case(argv, b"a-b-c\n"))
    # regexes that are fine (or not) on their own but fragile once the program embeds them in a larger
    # pattern, compiles a variant of them, or repeats them: verbose-mode comments, flags, nesting close to
    # the parser's limit, counted repetitions close to the size limit, empty-matching patterns
    for re_ in REGEX_ADV:
        for ctx in ([], ["-g"], ["-p", "-r", "/"], ["-t", "b"], ["-j", "-r", "x"], ["--json"], ["-g", "-t", "l", "-s"]):
            out.append(Case(["-e", re_, "-f", rng.choice(["1,2", "2:", "-1"])] + ctx, rng.choice([b"a-b,c\n", b"a , b#c\n-\n", b""])))
    # the same kind of argument vectors in pico-args' other spellings, with no value excluded (values that
    # start with '-', hold '=' or quotes, empty values): compared with the model of pico-args
    n_sp = max(200, count // 6)
    k = 0
    while k < n_sp:
        mode = rng.choice(modes)
        argv = [mode, rng.choice(["1", "2:", "-1", "1,2", "{1}x", "1=", "=x", "-", "1:2=a=b"])]
        FLAGLIKE = ["-j", "--join", "--no-join", "--json", "-g", "-p", "-s", "-z", "-m", "-jz", "-r", "-f", "--", "-M", "-e"]
        if rng.random() < 0.7: argv += ["-d", rng.choice(["-", "--", "=", "'", '"', "'-'", '"a"', "", "é", "a=b", "-d"] + FLAGLIKE)]
        for f in ["-g", "-p", "-s", "-z", "-m", "-j"]:
            if rng.random() < 0.25: argv.append(f)
        if rng.random() < 0.3: argv += ["-r", rng.choice(["/", "-", "=", "'x'", ""] + FLAGLIKE)]
        if rng.random() < 0.3: argv += ["-t", rng.choice(["l", "r", "b", "L", "x"])]
        if rng.random() < 0.2: argv += ["--fallback-oob", rng.choice(["x", "-", "=y", "'q'", ""] + FLAGLIKE)]
        if rng.random() < 0.2: argv += ["-M", rng.choice(["1", "'1'", "+1", "=1"])]
        out.append(Case(_respell(rng, argv), rng.choice(stdin_pool)))
        k += 1
    return out


def c14(rng, count):
    """fault positions: read fault at byte k, write fault at byte k (through the shim)"""
    out = []
    g = 0
    while len(out) < count:
        g += 1
        kind = rng.choice(["general", "fast", "bytes", "lines_f", "lines_b", "chars", "stream", "json"])
        delim = b"-"
        if kind == "general": argv = ["-d", "-", "-f", gen_bounds(rng, hi=3, neg=0.2, fb=0.5), "-g"]
        elif kind == "fast": argv = ["-d", "-", "-f", gen_bounds(rng, hi=3, neg=0.2, fb=0.5)]
        elif kind == "bytes": argv = ["-b", gen_bounds(rng, hi=4, fb=0.5)]
        elif kind == "lines_f": argv = ["-l", gen_forward_bounds(rng, hi=3, strict=False, fmt=0, fb=0.3)]
        elif kind == "lines_b": argv = ["-l", rng.choice(["-1", "2,1", "-2:"])]
        elif kind == "chars": argv = ["-c", gen_bounds(rng, hi=3, fmt=0, fb=0.5)]
        elif kind == "json": argv = ["--json", "-d", "-", "-f", gen_bounds(rng, hi=3, fmt=0, fb=0.5)]
        else: argv = ["-M", "1", "-d", "-", "-f", gen_forward_bounds(rng, hi=3, fb=0.5)]
        if rng.random() < 0.4 and "--fallback-oob" not in argv: argv += ["--fallback-oob", "G"]
        data = gen_input(rng, delim, list(b"ab"), b"\n", maxrec=4, maxfields=4, final_eol_p=0.8)
        if not data:
            data = b"a-b\n"
        out.append(Case(argv, data, tags={"grp": g, "role": "clean"}))
        for _ in range(2):
            k = rng.randint(0, len(data))
            e = rng.choice(["5", "21", "4", "11"])          # EIO, EISDIR, EINTR is retried by std so not used as fatal: 4 kept out below
            e = e if e != "4" else "5"
            out.append(Case(argv, data, extra={"rfail": str(k), "rerrno": e}, tags={"grp": g, "role": "r%d_%s" % (k, e), "fault": ("r", k)}))
        for _ in range(3):
            k = rng.randint(0, len(data) + 2)
            e = rng.choice(["28", "32", "5", "27"])          # ENOSPC, EPIPE, EIO, EFBIG
            out.append(Case(argv, data, extra={"wfail": str(k), "werrno": e}, tags={"grp": g, "role": "w%d_%s" % (k, e), "fault": ("w", k)}))
        if rng.random() < 0.3:
            out.append(Case(argv, data, extra={"wshort": "1"}, tags={"grp": g, "role": "short", "fault": ("s", 1)}))
    return out


def c18_strings(maxlen, alpha=None):
    import itertools
    alpha = alpha or ["1", "2", "0", "-", "+", ":", "=", "{", "}", ",", "\\", "n", "a", " ", "é"]
    for L in range(1, maxlen + 1):
        for t in itertools.product(alpha, repeat=L):
            yield "".join(t)


def c18(rng, count, maxlen=3):
    out = []
    for s in c18_strings(maxlen):
        out.append(Case([], s.encode(), entry="bounds"))
    # "non-zero 32-bit integers": magnitudes around every width the arithmetic could care about, both
    # signs, alone, open and as both sides of a range (parsed structure through the library, and the binary)
    mags = [1, 2, 7, 46340, 46341, 50000, 65535, 65536, 2147483646, 2147483647, 2147483648, 4294967295, 4294967296, 99999999999]
    sides = [str(m) for m in mags] + ["-" + str(m) for m in mags]
    for a in sides:
        for t in (a, a + ":", ":" + a, a + "=fb", "{" + a + "}"):
            out.append(Case([], t.encode(), entry="bounds"))
        for b in sides:
            out.append(Case([], (a + ":" + b).encode(), entry="bounds"))
            if rng.random() < 0.15:
                mode = rng.choice(["-f", "-c", "-b", "-l"])
                out.append(Case([mode, rng.choice([a + ":" + b, "x{" + a + ":" + b + "}"]), "--fallback-oob", "G"], b"a-b-c\nd-e-f\n"))
    # longer random strings from the same alphabet, biased towards well-formed pieces
    toks = ["1", "2", "-1", "10", "1:2", "2:", ":3", "-3:-1", "=x", "=", ",", "{", "}", "{{", "}}", "\\n", "\\t", "\\\\", "a", " ", "é", "+2", "0", ":", "1:2=a:b", "{1}", "{2,3}", "{1=x}",
            "\\", "n", "t", "{1}", "{2}", "{1}", "\\{{", "\\}}"]
    n0 = len(out)
    while len(out) < n0 + count:
        s = "".join(rng.choice(toks) for _ in range(rng.randint(1, 6)))
        out.append(Case([], s.encode(), entry="bounds"))
        # the rendering, through the real binary on probe records
        if rng.random() < 0.5:
            mode = rng.choice(["-f", "-f", "-c", "-b", "-l"])
            out.append(Case([mode, s] + (["-d", "-"] if mode == "-f" else []), b"a-b-c\nd-e-f\n"))
    return out


OPTS19 = [("-d", "-"), ("-e", "-"), ("-g", None), ("-p", None), ("-s", None), ("-z", None), ("-m", None), ("-j", None),
          ("--no-join", None), ("--json", None), ("-r", "/"), ("-t", "l"), ("--fallback-oob", "x"), ("-M", "1")]


def c19(rng, count, full=False):
    """subsets of the option set with representative values"""
    out = []
    modes = [None, ("-f", "1,2"), ("-c", "1,2"), ("-b", "1,2"), ("-l", "1,2")]
    stdin = b"a-b-c\nd-e-f\n"
    stdins = [stdin, stdin, b"\n\nx-y-z\n", b"", b"--\n-\n", b"\n"]
    def build(mode, mask, variant):
        argv = []
        if mode:
            argv += [mode[0], mode[1]]
        for i, (k, v) in enumerate(OPTS19):
            if mask >> i & 1:
                vv = v
                if variant and k == "-d" and variant.get("d"): vv = variant["d"]
                if variant and k == "-r" and variant.get("r"): vv = variant["r"]
                if variant and k == "-M" and variant.get("M"): vv = variant["M"]
                argv += [k] if v is None else [k, vv]
        if variant and variant.get("bounds") and mode:
            argv[1] = variant["bounds"]
        return argv
    # option values that look like options, in different places of the argument vector ("the decision depends only on
    # the set of options given, not on their order": a value is not an option wherever it stands)
    for v in ["-j", "--join", "--no-join", "--json", "-g", "-p", "-s", "-z", "-m", "-jz", "-e", "-M", "--", "-r"]:
        for argv in (["-d", ",", "-f", "1,2", "-r", v], ["-r", v, "-d", ",", "-f", "1,2", "-s"], ["-s", "-d", ",", "-f", "1,2", "-r", v],
                     ["-d", ",", "-f", "1,2", "-r=" + v], ["-M", "1", "-d", ",", "-f", "1,2", "-r=" + v], ["-M", "1", "-d", ",", "-f", "1,2", "-r", v],
                     ["-d", v, "-f", "1,2"], ["-f", "1,2", "-d", v, "-j"], ["-d", ",", "-f", "1,9", "--fallback-oob", v], ["--fallback-oob=" + v, "-d", ",", "-f", "9"],
                     ["-d", ",", "-f", "1,2", "-r", v, "-j"], ["-j", "-d", ",", "-f", "1,2", "-r", v], ["-e", v, "-f", "1,2", "-r", "x"]):
            out.append(Case(argv, rng.choice([b"a,b,c\n", b"a-jb,c\nx\n"])))
    # -M eligibility: every bounds shape, alone and with one more option
    shapes = ["1,2", "2,1", "1,1", "1:2,2", "1:2,3", "1,:3", ":1,:2", ":2,3", "1:,2", "-1", "x{1}y", "{1}{2}", "2:3,3", "1,3:",
              "1:3,2", ":1,2", "1,2:2", "2,:2", "1,2,2", "1:1,1"]
    extras = [[], ["-j"], ["-r", "/"], ["-r", "//"], ["-z"], ["--fallback-oob", "x"], ["-s"], ["-g"], ["-p"], ["-m"], ["-t", "l"],
              ["--json"], ["-e", "-"], ["-d", "--"]]
    for b in shapes:
        for e in extras:
            out.append(Case(["-f", b, "-d", "-", "-M", "1"] + e, stdin))
    if full:
        for mode in modes:
            for mask in range(1 << len(OPTS19)):
                out.append(Case(build(mode, mask, None), stdin))
    else:
        for _ in range(count):
            mode = rng.choice(modes)
            # few options at a time, so that single conflicts are not masked by others
            k = rng.choice([0, 1, 1, 2, 2, 3, 4, 6])
            mask = 0
            for i in rng.sample(range(len(OPTS19)), k):
                mask |= 1 << i
            variant = {}
            if rng.random() < 0.3: variant["d"] = rng.choice(["--", "é", ""])
            if rng.random() < 0.3: variant["r"] = rng.choice(["//", "", "é"])
            if rng.random() < 0.3: variant["M"] = rng.choice(["0", "2", "x"])
            if rng.random() < 0.5: variant["bounds"] = rng.choice(["1,2", "2,1", "1,1", "1:2,2", "1:2,3", "1,:3", ":1,:2", ":2,3", "1:,2", "-1", "x{1}y", "{1}{2}", "2:3,3", "1,3:"])
            argv = build(mode, mask, variant)
            if rng.random() < 0.15:
                # a different order of the same (option, value) pairs
                pairs = []
                i = 0
                while i < len(argv):
                    if i + 1 < len(argv) and (argv[i] in ("-f", "-c", "-b", "-l") or any(argv[i] == k and v is not None for k, v in OPTS19)):
                        pairs.append(argv[i:i + 2]); i += 2
                    else:
                        pairs.append(argv[i:i + 1]); i += 1
                rng.shuffle(pairs)
                argv2 = [a for p in pairs for a in p]
                g = len(out)
                out.append(Case(argv, stdin, tags={"grp": g, "role": "order1"}))
                out.append(Case(argv2, stdin, tags={"grp": g, "role": "order2"}))
            else:
                out.append(Case(argv, rng.choice(stdins)))
    # "fails on the first record", whatever that record is
    for sin in stdins:
        for extra in ([], ["-j"], ["-p"], ["-j", "-p"], ["-p", "-t", "b"], ["-p", "-s"], ["-p", "-r", "/"], ["-j", "--json"], ["-g"]):
            out.append(Case(["-e", "-", "-f", "1"] + extra, sin))
    return out


# ---------------------------------------------------------------- large inputs (no model: oracles only)
BUF = 65536


def _big_record(rng, delim, nfields, target, eol):
    """a record of about `target` bytes whose delimiters fall around multiples of the 64 KiB buffer"""
    fs = []
    left = target
    for i in range(nfields):
        k = left if i == nfields - 1 else rng.choice([1, 7, BUF - 1, BUF, BUF + 1, BUF // 2, 3000])
        k = max(0, min(k, left))
        left -= k
        fs.append(bytes(rng.choice(b"abcxyz ") for _ in range(min(k, 64))) * (k // 64 + 1))
        fs[-1] = fs[-1][:k]
    return delim.join(fs)


def big_inputs(rng, delim=b"-", eol=b"\n"):
    out = []
    # interesting bytes straddling the buffer boundary
    for off in (BUF - 2, BUF - 1, BUF, BUF + 1):
        out.append(b"x" * off + delim + b"yy" + delim + b"z" + eol + b"a" + delim + b"b" + eol)
        out.append(b"k" + delim + b"x" * off + eol + b"p" + delim + b"q" + delim + b"r" + eol)
        out.append(b"x" * (off - 1) + eol + delim + b"q" + eol)
        out.append((b"ab" + delim + b"cd" + eol) * (off // 6) + b"tail" + delim + b"end")
    out.append(_big_record(rng, delim, 5, 3 * BUF + 17, eol) + eol + b"s" + delim + b"t" + eol)
    out.append((b"f1" + delim + b"f2" + delim + b"f3" + eol) * 30000)
    return out


def c04_big(rng):
    out = []
    g = 10 ** 6
    for data in big_inputs(rng):
        for b in ("1", "2", "1:2", "2:", "1,3", "x{2}y", "1,3=F"):
            g += 1
            argv = ["-M", "1", "-d", "-", "-f", b] + (["-j"] if rng.random() < 0.3 else []) + (["--fallback-oob", "G"] if rng.random() < 0.5 else [])
            t = {"grp": g, "nomodel": True}
            out.append(Case(argv, data, entry="main", seg=[], tags=dict(t, role="cli_whole")))
            out.append(Case(argv, data, entry="main", seg=[rng.choice([1, 2, 3, 100, 4096, BUF - 1, BUF + 1])] * 1 + [rng.choice([5, BUF, 70000])] * 8, tags=dict(t, role="cli_seg")))
            out.append(Case(argv, data, entry="stream", seg=[], tags=dict(t, role="whole")))
            out.append(Case(argv, data, entry="stream", seg=[rng.choice([7, 4096, BUF, BUF - 1])] * 64, tags=dict(t, role="lib_seg")))
    return out


def c03_big(rng):
    out = []
    g = 10 ** 6
    for data in big_inputs(rng):
        for b in ("1", "2", "3", "2:", "1,3=F", "x{2}y"):      # single fields / open range: never straddle
            g += 1
            base = ["-d", "-", "-f", b, "--fallback-oob", "G"] + (["-j"] if rng.random() < 0.3 else [])
            t = {"grp": g, "nomodel": True}
            out.append(Case(base, data, tags=dict(t, role="plain")))
            out.append(Case(["-M", "1"] + base, data, tags=dict(t, role="stream_cli")))
    return out


def c02_big(rng):
    out = []
    g = 10 ** 6
    for data in big_inputs(rng):
        for b in ("1", "2,1", "-1", "1:2,3", "2:"):
            g += 1
            argv = ["-d", "-", "-f", b, "--fallback-oob", "G"] + (["-s"] if rng.random() < 0.3 else [])
            t = {"grp": g, "nomodel": True}
            out.append(Case(argv, data, entry="general", tags=dict(t, role="general")))
            out.append(Case(argv, data, entry="fast", tags=dict(t, role="fast")))
            out.append(Case(argv, data, entry="main", tags=dict(t, role="cli")))
    return out


def c10_big(rng):
    out = []
    g = 10 ** 6
    ins = big_inputs(rng)
    for i in range(0, len(ins) - 1):
        A, B = ins[i], ins[i + 1]
        if not A.endswith(b"\n"):
            A += b"\n"
        for argv in (["-d", "-", "-f", "2,1", "--fallback-oob", "G"], ["-d", "-", "-f", "1:2", "-p", "--fallback-oob", "G"],
                     ["-M", "1", "-d", "-", "-f", "2", "--fallback-oob", "G"], ["-d", "-", "-f", "3"]):
            g += 1
            t = {"grp": g, "nomodel": True}
            out.append(Case(argv, A, tags=dict(t, role="A")))
            out.append(Case(argv, B, tags=dict(t, role="B")))
            out.append(Case(argv, A + B, tags=dict(t, role="AB")))
    return out


def c14_big(rng):
    """outputs larger than the 64 KiB BufWriter, write faults around the buffer boundary, a record
    that fails after more than a buffer of good output"""
    out = []
    g = 10 ** 6
    many = (b"alpha-beta-gamma\n") * 9000          # ~150 KB in, ~45-100 KB out
    for argv in (["-d", "-", "-f", "2"], ["-d", "-", "-f", "1:2", "-g"], ["-M", "1", "-d", "-", "-f", "2"], ["-c", "1:5"],
                 ["-l", "2:"], ["-l", "-8000:"], ["-b", "1:"], ["--json", "-d", "-", "-f", "1,2"]):
        g += 1
        t = {"grp": g, "nomodel": True}
        out.append(Case(argv, many, tags=dict(t, role="clean")))
        for k in (0, 1, BUF - 1, BUF, BUF + 1, 2 * BUF, 10 ** 9):
            e = rng.choice(["28", "32", "5"])
            out.append(Case(argv, many, extra={"wfail": str(k), "werrno": e}, tags=dict(t, role="w%d_%s" % (k, e), fault=("w", k))))
        for k in (BUF - 1, BUF, BUF + 7, len(many) - 1):
            out.append(Case(argv, many, extra={"rfail": str(k)}, tags=dict(t, role="r%d" % k, fault=("r", k))))
    # a failing record after more than a buffer of good output
    good = (b"a-b-c\n") * 20000
    bad = good + b"only-two\n" + b"x-y-z\n"
    for argv in (["-d", "-", "-f", "3"], ["-d", "-", "-f", "3", "-g"], ["-M", "1", "-d", "-", "-f", "3"]):
        g += 1
        t = {"grp": g, "nomodel": True}
        out.append(Case(argv, good, tags=dict(t, role="A")))
        out.append(Case(argv, bad, tags=dict(t, role="AB_fail")))
    return out


def c05_big(rng):
    """line mode on an input larger than the 64 KiB reader: forward request vs an equivalent buffered one"""
    out = []
    g = 10 ** 6
    N = 20000
    for z in (False, True):
        eol = b"\0" if z else b"\n"
        data = eol.join(str(i).encode() for i in range(1, N + 1)) + eol
        for fwd, buf in (("15000", "%d" % (15000 - N - 1)), ("3,13000,14000:14001,%d" % N, "3,13000,%d:%d,-1" % (14000 - N - 1, 14001 - N - 1)),
                         ("13000:", "%d:" % (13000 - N - 1)), ("1,12000", "%d,12000" % (-N)), ("19999:20000", "-2:")):
            g += 1
            opts = (["-z"] if z else []) + (["--no-join"] if rng.random() < 0.3 else [])
            t = {"grp": g, "nomodel": True}
            out.append(Case(["-l", fwd] + opts, data, tags=dict(t, role="forward")))
            out.append(Case(["-l", buf] + opts, data, tags=dict(t, role="buffered")))
    return out


def small_scope(rng, maxlen=4, sample=None):
    """small-scope exhaustive block for the general path: every record over {a, b, -} up to a
    length, self-overlapping and plain delimiters, trims / -g / -p / -s, a few bounds"""
    import itertools
    out = []
    recs = [bytes(t) for L in range(0, maxlen + 1) for t in itertools.product(b"ab-", repeat=L)]
    delims = ["-", "--", "ab", "aba", "aa"]
    optsets = [[], ["-t", "l"], ["-t", "r"], ["-t", "b"], ["-g"], ["-p"], ["-g", "-p"], ["-s"], ["-t", "b", "-g"], ["-t", "b", "-p"],
               ["-p", "-r", "a"], ["-g", "-r", "-"]]
    bounds = ["1:", "2", "-1", "1,3=F", "2:-1"]
    combos = [(d, o, b) for d in delims for o in optsets for b in bounds]
    for r in recs:
        for (d, o, b) in (combos if sample is None else rng.sample(combos, sample)):
            out.append(Case(["-d", d, "-f", b] + o, r + b"\n"))
    return out


def c08_big(rng):
    """--json with fields longer than the 64 KiB buffers, multi-byte characters straddling the
    boundary; the expected array is computed here from the statement"""
    out = []
    for pad in (BUF - 2, BUF - 1, BUF, BUF + 1):
        f2 = "x" * pad + "é€𝄞" + "y" * 10 + "\"" + "z"
        rec1 = "k-" + f2 + "-t"
        data = (rec1 + "\n" + "p-q-r\n").encode()
        for b, exp in (("2", [[f2], ["q"]]), ("1:", [["k", f2, "t"], ["p", "q", "r"]]), ("3,2", [["t", f2], ["r", "q"]])):
            out.append(Case(["--json", "-d", "-", "-f", b], data, tags={"nomodel": True, "expect_json": exp}))
    return out


def c06_big(rng):
    """byte mode on inputs larger than every buffer in the way (64 KiB BufReader/BufWriter, the
    1 KiB LineWriter behind stdout); expected bytes computed here from the statement"""
    out = []
    for n in (BUF - 1, BUF, BUF + 1, 70000, 200000):
        base = bytearray(rng.choice(b"abc\0\xff ") for _ in range(n))
        for lfpos in (None, n // 2, n - 2000, n - 10):
            data = bytearray(base)
            if lfpos is not None and 0 <= lfpos < n:
                data[lfpos] = 10
            data = bytes(data)
            for b, exp in (("1:", data), ("-66000:", data[-66000:] if n >= 66000 else None), ("2:-2", data[1:-1]),
                           ("{1:}|{1}", data + b"|" + data[:1]), ("%d:,1:%d" % (n - 5, n - 5), data[n - 6:] + data[:n - 5])):
                if exp is None:
                    continue
                out.append(Case(["-b", b], data, tags={"nomodel": True, "expect": exp}))
    return out


# ---------------------------------------------------------------- spellings of the same argument vector
LONG = {"-f": "--fields", "-c": "--characters", "-b": "--bytes", "-l": "--lines", "-d": "--delimiter",
        "-g": "--greedy-delimiter", "-p": "--compress-delimiter", "-s": "--only-delimited", "-z": "--zero-terminated",
        "-m": "--complement", "-j": "--join", "-r": "--replace-delimiter", "-t": "--trim", "-e": "--regex",
        "-M": "--fixed-memory"}
TAKES_VALUE = {"-f", "-c", "-b", "-l", "-d", "-r", "-t", "-e", "-M", "--fallback-oob"}


def _respell(rng, argv):
    """another spelling of the same options (pico-args: long names, '=' separator, attached short values,
    combined short flags); argv is a list of str"""
    toks, i = [], 0
    while i < len(argv):
        a = argv[i]
        if a in TAKES_VALUE and i + 1 < len(argv):
            toks.append((a, argv[i + 1])); i += 2
        else:
            toks.append((a, None)); i += 1
    if rng.random() < 0.5:
        rng.shuffle(toks)
    out, flags = [], []
    def flush():
        if flags:
            out.append("-" + "".join(f[1] for f in flags)) if len(flags) > 1 else out.append(flags[0])
            flags.clear()
    for k, v in toks:
        if v is None:
            if k in LONG and len(k) == 2 and rng.random() < 0.4:
                flags.append(k)             # candidate for -gp style combination
                if rng.random() < 0.4: flush()
                continue
            flush()
            out.append(LONG[k] if (k in LONG and rng.random() < 0.5) else k)
            continue
        flush()
        name = LONG[k] if (k in LONG and rng.random() < 0.5) else k
        form = rng.choice(["space", "space", "eq", "attached" if len(name) == 2 else "eq"])
        if form == "space" or v == "":
            out += [name, v]
        elif form == "eq":
            out.append(name + "=" + v)
        else:
            out.append(name + v)
    flush()
    return out


def argv_spellings(rng, count):
    """pairs (argv, a respelling of it) on the same input; both also go through the model"""
    out = []
    g = 3 * 10 ** 6
    pools = [lambda: fields(rng, 1), lambda: fast(rng, 1), lambda: lines(rng, 1), lambda: chars(rng, 1),
             lambda: jsonf(rng, 1), lambda: regex(rng, 1), lambda: bytes_mode(rng, 1)]
    while len(out) < count:
        base = rng.choice(pools)()
        if not base:
            continue
        c = base[0]
        try:
            argv = [a.decode("utf-8") for a in c.argv]
        except UnicodeDecodeError:
            continue
        if c.entry != "main" or c.seg or c.extra:
            continue
        # values that start with '-' or hold '=' or quotes make some spellings mean something else
        # (that is pico-args' documented behaviour, not a property of tuc): keep the space form for them
        vals = [argv[i + 1] for i in range(len(argv) - 1) if argv[i] in TAKES_VALUE]
        if any(v.startswith("-") or v[:1] in ("=", "'", '"') for v in vals):
            continue
        g += 1
        out.append(Case(argv, c.stdin, tags={"grp": g, "role": "spelling1"}))
        out.append(Case(_respell(rng, argv), c.stdin, tags={"grp": g, "role": "spelling2"}))
    return out


def _gen_re(rng, depth=0):
    """a random regex of the modelled family (and a little beyond: the model says 'unknown' there)"""
    r = rng.random()
    if depth > 2 or r < 0.35:
        return rng.choice(["a", "b", "-", ",", "x", "0", " ", "é", "ab", "--"])
    if r < 0.5:
        return rng.choice(["[ab]", "[a-c]", "[,;]", "[0-9]", "[ ,]", "[-,]", "[a-]", "[^a]"])
    if r < 0.7:
        return _gen_re(rng, depth + 1) + _gen_re(rng, depth + 1)
    if r < 0.85:
        return _gen_re(rng, depth + 1) + "|" + _gen_re(rng, depth + 1)
    if r < 0.93:
        return "(" + _gen_re(rng, depth + 1) + ")" + rng.choice(["", "+", "+"])
    return _gen_re(rng, depth + 1) + "+"


def regex_random(rng, n):
    """random regexes from a grammar, and random strings over the regex syntax"""
    out = []
    for _ in range(n):
        if rng.random() < 0.8:
            re_ = _gen_re(rng)
        else:
            re_ = "".join(rng.choice("ab|()[]+-,") for _ in range(rng.randint(1, 5)))
        argv = ["-e", re_, "-f", gen_bounds(rng)]
        if rng.random() < 0.5: argv += ["-r", rng.choice(["/", "", "$0", ",", "ab"])]
        for f in ("-g", "-p", "-s", "-m", "-j"):
            if rng.random() < 0.2: argv.append(f)
        if rng.random() < 0.25: argv += ["-t", rng.choice("lrb")]
        if rng.random() < 0.2: argv += ["--fallback-oob", "G"]
        alpha = list(b"ab-,;xy0 c") + list("é".encode())
        recs = [bytes(rng.choice(alpha) for _ in range(rng.randint(0, 9))) for _ in range(rng.randint(1, 3))]
        out.append(Case(argv, b"\n".join(recs) + (b"\n" if rng.random() < 0.7 else b"")))
    return out
