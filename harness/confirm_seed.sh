#!/bin/sh
# confirm_seed.sh <Cnn> [name]: confirm an agent-made seeded change in /tmp/wt-<Cnn> and store it under /verif/seeded/
id="$1"; name="${2:-$1}"
wt=/tmp/wt-$id; out=/tmp/wt-$id-out
export CARGO_NET_OFFLINE=true RUST_BACKTRACE=0 CARGO_TARGET_DIR=$wt/target
cd $wt || exit 2
git diff > /tmp/confirm-$id.diff
cmp -s /tmp/confirm-$id.diff $out/patch.diff || echo "note: worktree diff differs from patch.diff (using worktree diff)"
t=$(cargo test --offline 2>&1 | grep -E "^test result" | awk '{p+=$4; f+=$6} END {print p" passed "f" failed"}')
echo "tests with change: $t"
cargo build --offline 2>&1 | tail -1
bash $out/demo.sh $wt/target/debug/tuc >/dev/null 2>&1; with=$?
base=$(cd /verif/harness && env -u CARGO_TARGET_DIR python3 -c 'from common import *; print(build_tuc())')
bash $out/demo.sh $base >/dev/null 2>&1; without=$?
echo "demo with change: exit $with ; without: exit $without"
case "$t" in *" 0 failed") ;; *) echo "REJECT: tests fail"; exit 1;; esac
[ "$with" = 1 ] && [ "$without" = 0 ] || { echo "REJECT: demo does not discriminate"; exit 1; }
d=/verif/seeded/$name; mkdir -p $d
cp /tmp/confirm-$id.diff $d/patch.diff; cp $out/demo.sh $d/demo.sh
for f in $out/*.rs; do [ -f "$f" ] && cp $f $d/; done
python3 - "$out/meta.json" "$d/meta.json" "$t" "$with" "$without" <<'PY'
import json,sys
m=json.load(open(sys.argv[1]))
m["confirmed"]={"tests_with_change":sys.argv[3],"demo_exit_with_change":int(sys.argv[4]),"demo_exit_without_change":int(sys.argv[5]),
  "how":"cargo test --offline in the scratch worktree with the change; demo.sh against the changed binary and against the binary built from /repo"}
json.dump(m,open(sys.argv[2],"w"),indent=1)
PY
echo "stored in $d"
