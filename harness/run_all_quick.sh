#!/bin/sh
# run every quick check once (seed 1) and print one status line each; rewrites evidence/*.json
cd /verif
for i in 01 02 03 04 05 06 07 08 09 10 11 12 13 14 15 16 17 18 19; do
  ./check C$i quick 2>&1 | tail -1
done
