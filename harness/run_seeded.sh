#!/bin/sh
# run_seeded.sh [ids...] : apply each seeded change to /repo, run its property's quick check, revert.
cd /verif
ids="$@"; [ -z "$ids" ] && ids=$(ls seeded | grep -v RESULTS)
# the evidence files must come from runs on the unchanged tree: keep them aside while the changed trees are checked
rm -rf .build/evidence.keep; cp -r evidence .build/evidence.keep
trap 'rm -rf /verif/evidence; cp -r /verif/.build/evidence.keep /verif/evidence' EXIT
for id in $ids; do
  prop=$(python3 -c "import json;print(json.load(open('seeded/$id/meta.json'))['property'])")
  git -C /repo apply /verif/seeded/$id/patch.diff || { echo "$id: patch does not apply"; continue; }
  out=$(./check $prop quick 2>/dev/null | grep -E "^VIOLATION" | head -1)
  git -C /repo checkout -- .
  [ -n "$(git -C /repo status --short)" ] && git -C /repo clean -fdq src
  echo "$id ($prop): ${out:-NOT DETECTED}"
done
