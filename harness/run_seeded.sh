#!/bin/sh
# run_seeded.sh [ids...] : apply each seeded change to /repo, run its property's quick check, revert.
cd /verif
ids="$@"; [ -z "$ids" ] && ids=$(ls seeded | grep -v RESULTS)
for id in $ids; do
  prop=$(python3 -c "import json;print(json.load(open('seeded/$id/meta.json'))['property'])")
  git -C /repo apply /verif/seeded/$id/patch.diff || { echo "$id: patch does not apply"; continue; }
  out=$(./check $prop quick 2>/dev/null | grep -E "^VIOLATION" | head -1)
  git -C /repo checkout -- .
  [ -n "$(git -C /repo status --short)" ] && git -C /repo clean -fdq src
  echo "$id ($prop): ${out:-NOT DETECTED}"
done
