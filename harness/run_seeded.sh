#!/bin/sh
# run_seeded.sh [ids...] : apply each seeded change to the repository, run its property's quick check, revert.
# The repository is $TUC_REPO (default /repo); the framework is the directory this script lives in.
V=$(cd "$(dirname "$0")/.." && pwd)
REPO=${TUC_REPO:-/repo}
cd "$V"
ids="$@"; [ -z "$ids" ] && ids=$(ls seeded | grep -v RESULTS)
# the evidence files must come from runs on the unchanged tree: keep them aside while the changed trees are checked
mkdir -p .build; rm -rf .build/evidence.keep; cp -r evidence .build/evidence.keep
trap 'rm -rf "$V/evidence"; cp -r "$V/.build/evidence.keep" "$V/evidence"' EXIT
for id in $ids; do
  prop=$(python3 -c "import json;print(json.load(open('seeded/$id/meta.json'))['property'])")
  git -C "$REPO" apply "$V/seeded/$id/patch.diff" || { echo "$id: patch does not apply"; continue; }
  out=$(./check $prop quick 2>/dev/null | grep -E "^VIOLATION" | head -1)
  git -C "$REPO" checkout -- .
  [ -n "$(git -C "$REPO" status --short)" ] && git -C "$REPO" clean -fdq src
  echo "$id ($prop): ${out:-NOT DETECTED}"
done
