#!/bin/sh
# goal.sh <file.v> <line> : show the proof state after the given line (authoring helper)
f="$1"; n="$2"
head -n "$n" "$f" > /tmp/_goal.v
echo "Show." >> /tmp/_goal.v
cd /verif/coq && coqtop -Q . TucModel -quiet < /tmp/_goal.v 2>&1 | tail -n ${3:-40}
