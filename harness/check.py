#!/usr/bin/env python3
"""Entry point:  check <Cnn> [quick|thorough]   |   check --replay <path>

For one property:
  1. Coq: build the development (cached), re-check the property's theorem pins and axioms
     (Pins/<id>.v is recompiled on every run), hygiene grep.
  2. build tuc / harness / driver / shim from the current working tree of the repository.
  3. correspondence: corpus + generated cases through the extracted model and the
     implementation; compare the observables.
  4. property oracle on the implementation (relational properties) and known findings.
  5. verdict, evidence, replay.
"""
import collections
import json
import os
import random
import re
import sys
import time

sys.path.insert(0, os.path.dirname(os.path.abspath(__file__)))
from common import *  # noqa
import props
import tie

FORBIDDEN = re.compile(r"\b(Admitted|admit|Axiom|Axioms|Parameter|Parameters|Conjecture|Conjectures|Admit Obligations)\b"
                       r"|Unset Guard|bypass_check|type-in-type|impredicative-set|Unset Positivity|Unset Universe")


def strip_comments(text):
    out, depth, i = [], 0, 0
    while i < len(text):
        if text.startswith("(*", i):
            depth += 1
            i += 2
        elif text.startswith("*)", i) and depth:
            depth -= 1
            i += 2
        else:
            if depth == 0:
                out.append(text[i])
            i += 1
    return "".join(out)


def hygiene():
    """No Admitted/Axiom/..., and Variable/Hypothesis only inside a Section."""
    problems = []
    for root, _, files in os.walk(COQ):
        for f in files:
            if not f.endswith(".v"):
                continue
            p = os.path.join(root, f)
            text = strip_comments(open(p).read())
            depth = 0
            for ln, line in enumerate(text.splitlines(), 1):
                if FORBIDDEN.search(line):
                    problems.append("%s:%d: %s" % (p, ln, line.strip()))
                if re.match(r"\s*Section\b", line):
                    depth += 1
                elif re.match(r"\s*End\b", line) and depth:
                    depth -= 1
                elif re.match(r"\s*(Variable|Variables|Hypothesis|Hypotheses|Context)\b", line) and depth == 0:
                    problems.append("%s:%d: %s outside a Section" % (p, ln, line.strip()))
    return problems


ALLOWED_AXIOMS = set()   # the development is axiom-free; names of stdlib axioms would go here


def coqchk_check(prop):
    """thorough tier: re-check the compiled property file and everything it depends on with the
    independent checker; its context summary must list no axiom and no bypassed check"""
    rc, out = sh(["timeout", "3000", "coqchk", "-silent", "-o", "-Q", COQ, "TucModel", "TucModel.Properties." + prop],
                 cwd=COQ, check=False)
    tail = out[-1500:]
    ok = (rc == 0 and re.search(r"Axioms:\s*<none>", out) is not None
          and re.search(r"type-in-type:\s*<none>", out) is not None
          and re.search(r"unsafe \(co\)fixpoints:\s*<none>", out) is not None
          and re.search(r"positivity is assumed:\s*<none>", out) is not None)
    return ok, tail


def coq_check(prop):
    """Returns (ok, info).  info: obligations, discharged, axioms, log tail."""
    info = {"obligations": 0, "discharged": 0, "axioms": [], "theorems": [], "log": ""}
    rc, out = build_coq()
    if rc != 0:
        info["log"] = out[-3000:]
        # which file failed?
        m = re.findall(r'File "\./([^"]+)"', out)
        info["failed_file"] = m[-1] if m else "?"
        return False, info
    pin = os.path.join(COQ, "Pins", prop + ".v")
    if not os.path.exists(pin):
        info["log"] = "no pin file"
        return False, info
    rc, out = sh(["timeout", "600", "coqc", "-Q", COQ, "TucModel", pin], cwd=COQ, check=False)
    for ext in (".vo", ".glob", ".vok", ".vos"):
        q = pin[:-2] + ext
        if os.path.exists(q):
            os.remove(q)
    aux = os.path.join(COQ, "Pins", "." + prop + ".aux")
    if os.path.exists(aux):
        os.remove(aux)
    info["log"] = out[-3000:]
    if rc != 0:
        info["failed_file"] = "Pins/%s.v" % prop
        return False, info
    # every `Check name : stmt` produced one line "name\n : stmt"; every Print Assumptions
    # produced either "Closed under the global context" or "Axioms:" + names
    text = open(pin).read()
    thms = re.findall(r"^Check\s+(?:@)?(\w+)\s*:", text, re.M)
    n_pa = len(re.findall(r"^Print Assumptions", text, re.M))
    closed = out.count("Closed under the global context")
    axioms = []
    for blk in re.findall(r"Axioms:\n((?:.+\n?)+?)(?:\n\S|\Z)", out):
        for l in blk.splitlines():
            mm = re.match(r"^(\S+)\s*:", l)
            if mm:
                axioms.append(mm.group(1))
    info["theorems"] = thms
    info["obligations"] = len(thms)
    info["axioms"] = axioms
    bad_axioms = [a for a in axioms if a not in ALLOWED_AXIOMS]
    n_ax_blocks = out.count("Axioms:")
    ok = len(thms) > 0 and n_pa == len(thms) and closed + n_ax_blocks == n_pa and not bad_axioms
    info["discharged"] = len(thms) if ok else 0
    return ok, info


def input_distribution(cases):
    """what the generators produced, for the evidence: sizes, entries, options, segmentations, faults"""
    import collections
    def bucket(n):
        for lim, name in ((0, "0"), (8, "1-8"), (64, "9-64"), (4096, "65-4096"), (65536, "4097-65536")):
            if n <= lim:
                return name
        return ">65536"
    sizes, entries, opts = collections.Counter(), collections.Counter(), collections.Counter()
    nopts = collections.Counter()
    seg = faults = invalid_utf8 = 0
    for c in cases:
        sizes[bucket(len(c.stdin))] += 1
        entries[c.entry] += 1
        k = 0
        skip = False
        for a in c.argv:
            if skip:
                skip = False
                continue
            if a.startswith(b"-") and len(a) > 1 and not a[1:2].isdigit():
                name = a.split(b"=")[0].decode("utf-8", "replace")[:24]
                opts[name] += 1
                k += 1
                skip = name in ("-f", "-c", "-b", "-l", "-d", "-r", "-t", "-e", "-M", "--fallback-oob") and b"=" not in a
        nopts[min(k, 8)] += 1
        seg += 1 if c.seg else 0
        faults += 1 if c.extra else 0
        try:
            c.stdin.decode("utf-8")
        except UnicodeDecodeError:
            invalid_utf8 += 1
    return {"cases": len(cases), "stdin_bytes": dict(sizes), "entries": dict(entries),
            "options_per_case": {str(k): v for k, v in sorted(nopts.items())},
            "option_frequency": dict(opts.most_common(40)), "with_segmentation": seg, "with_fault": faults,
            "stdin_not_utf8": invalid_utf8}


def count_lemmas(prop):
    """lemmas/theorems in the proof files the property file imports (for the evidence)"""
    n = 0
    pf = os.path.join(COQ, "Properties", prop + ".v")
    if not os.path.exists(pf):
        return 0
    text = open(pf).read()
    files = set(re.findall(r"\b(Proofs\.\w+)", text))
    for f in files:
        p = os.path.join(COQ, f.replace(".", "/") + ".v")
        if os.path.exists(p):
            n += len(re.findall(r"^\s*(Lemma|Theorem|Corollary|Example|Fact)\b", open(p).read(), re.M))
    return n


def main():
    args = sys.argv[1:]
    if args and args[0] == "--replay":
        return replay(args[1])
    prop = args[0]
    tier = os.environ.get("VERIF_TIER") or (args[1] if len(args) > 1 else "quick")
    seed = int(os.environ.get("VERIF_SEED", "1"))
    t0 = time.time()
    P = props.PROPS[prop]
    violations = []      # (what, replay_payload, has_input)
    notes = []

    # ---- 1. Coq
    hy = hygiene()
    ok_coq, cinfo = coq_check(prop)
    if ok_coq and tier == "thorough":
        ok_chk, chk_tail = coqchk_check(prop)
        cinfo["coqchk"] = "Axioms: <none>; no type-in-type, unsafe fixpoint or assumed positivity" if ok_chk else chk_tail
        if not ok_chk:
            ok_coq = False
            cinfo["log"] = "coqchk: " + chk_tail
            cinfo["failed_file"] = "coqchk Properties/%s.vo" % prop
            cinfo["discharged"] = 0
    if hy:
        ok_coq = False
        cinfo["log"] += "\nhygiene: " + "; ".join(hy[:5])

    # ---- 1b. translation tie: the integer/decision core of src/bounds, translated from the source as it is
    # now, must still be the model's (bridge lemmas re-proved on every run)
    tie_res, tie_rel, tie_failed, tie_untr = {}, [], [], []
    if ok_coq:
        try:
            tie_res = tie.tie_check()
            tie_rel, tie_failed, tie_untr = tie.for_property(prop, tie_res)
        except BuildError as e:
            ok_coq = False
            cinfo["log"] += "\ntie: " + str(e)[-1500:]
            cinfo["failed_file"] = "Tie/"
        if tier == "thorough" and tie_rel and not tie_failed and not tie_untr:
            rc, out = sh(["timeout", "3000", "coqchk", "-silent", "-o", "-Q", COQ, "TucModel", "TucModel.Tie.Corollaries"], cwd=COQ, check=False)
            if rc != 0 or re.search(r"Axioms:\s*<none>", out) is None:
                ok_coq = False
                cinfo["log"] += "\ncoqchk Tie/Corollaries: " + out[-800:]

    # ---- 2. builds
    try:
        drv = build_driver()
        tuc = build_tuc()
        lib_broken = None
        try:
            har = build_harness()
        except BuildError as e:
            # the library API changed under the harness: not by itself a violation of the property;
            # go on through the binary alone and look for a failing input there
            lib_broken = str(e)[-2000:]
            har = build_harness(lib=False)
        shim = build_shim()
        tuc_rel = build_tuc("release") if (tier == "thorough" and P.get("release")) else None
    except BuildError as e:
        payload = {"property": prop, "kind": "build-failure", "detail": str(e)[-3000:]}
        path = write_replay(prop, payload)
        write_evidence(prop, tier, seed, {"obligations": max(1, cinfo["obligations"]), "discharged": 0,
                                          "checker_cmd": "coqc (make) in /verif/coq", "trusted_base": props.TRUSTED,
                                          "explanation": "build failed"}, P["assumptions"], time.time() - t0, 1)
        print("VIOLATION property=%s replay=%s no-failing-input-found" % (prop, path))
        return 1

    # ---- 3. cases
    rng = random.Random(seed * 1000003 + int(prop[1:]))
    budget = P["budget"][0 if tier == "quick" else 1]
    if tie_failed:
        budget *= 3        # a bridge lemma broke: look harder for a concrete failing input
    elif tie_untr:
        budget *= 2        # the code left the translator's subset: the correspondence check carries the tie alone
    corpus = props.corpus_cases(prop)
    gen = P["gen"](rng, budget, tier)
    # every mode must give the same result however stdin arrives: one generated CLI case in eight is
    # run a second time with the input served in prescribed pieces (read shim); the model does not
    # depend on the segmentation, so the twin is decided by the correspondence check
    twins = props.segmented_twins(rng, gen)
    cases = number(dedup(corpus + gen + twins))
    model = run_model(drv, [c for c in cases if not c.tags.get("nomodel")])
    # the extracted program against the kernel, on a sample (a larger one in the thorough tier)
    n_kernel, kernel_err = kernel_recheck(cases, model, limit=(40 if tier == "quick" else 400))
    cli = [c for c in cases if c.entry == "main"]
    lib = [c for c in cases if c.entry != "main"]
    if lib_broken:
        lib = []
    impl = {}
    if cli:
        impl.update(run_cli(har, tuc, cli, shim=shim))
    if lib:
        impl.update(run_lib(har, lib))
    impl_rel = {}
    if tuc_rel and cli:
        impl_rel = run_cli(har, tuc_rel, cli, shim=shim)

    classes = collections.Counter()
    nontrivial = set()
    disagreements = []
    for c in cases:
        m = model.get(c.id)
        i = impl.get(c.id)
        if c.tags.get("nomodel"):
            # too large for the extracted model (unary offsets): decided by the oracles only
            if i is None:
                disagreements.append((c, None, None, "no result from implementation"))
            else:
                nontrivial.add(c.key())
            continue
        if m is None or i is None:
            disagreements.append((c, m, i, "no result from %s" % ("model" if m is None else "implementation")))
            continue
        classes[m[0]] += 1
        if not P.get("compare", lambda c: True)(c):
            if P["nontrivial"](c, m):
                nontrivial.add(c.key())
            continue
        if P["nontrivial"](c, m):
            nontrivial.add(c.key())
        ok, why = agree(m, i)
        if not ok:
            disagreements.append((c, m, i, why))
        elif c.id in impl_rel:
            ok2, why2 = agree(m, impl_rel[c.id])
            if not ok2:
                disagreements.append((c, m, impl_rel[c.id], "release build: " + why2))

    # ---- 4. property oracle on the implementation itself (relational properties)
    oracle_fail = []
    oracle_evals = 0
    if P.get("oracle"):
        oracle_evals, oracle_fail = P["oracle"](cases, impl, dict(har=har, tuc=tuc, shim=shim, rng=rng, tier=tier,
                                                                 model=model, drv=drv))

    extra_cov = {}
    if P.get("extra_check"):
        n_extra, bad_extra, extra_cov = P["extra_check"](dict(har=har, tuc=tuc, shim=shim, rng=rng, tier=tier))
        oracle_evals += n_extra
        oracle_fail += bad_extra

    # ---- 5. findings
    findings = [f for f in load_findings() if f.get("property") == prop]
    known_lines = []
    known_keys = set()
    known_classes = []
    for f in findings:
        if f.get("status") == "fixed":
            continue
        w = f["witness"]
        fc = Case([bytes.fromhex(a) for a in w["argv_hex"]], bytes.fromhex(w["stdin_hex"]), entry=w.get("entry", "main"),
                  seg=w.get("seg"), extra=w.get("extra"))
        number([fc])
        r = run_cli(har, tuc, [fc], shim=shim) if fc.entry == "main" else run_lib(har, [fc])
        obs = r.get(fc.id)
        if obs and obs[0] == f["observed"]["class"] and obs[1].hex() == f["observed"].get("stdout_hex", obs[1].hex()):
            known_lines.append("KNOWN-FINDING: property=%s %s" % (prop, f["what"]))
            known_keys.add(fc.key())
            if f.get("class") in props.KF_CLASSES:
                known_classes.append(props.KF_CLASSES[f["class"]])
        else:
            violations.append(("known finding %s behaves differently now" % f["id"],
                               {"property": prop, "kind": "finding-changed", "finding": f,
                                "observed_now": {"class": obs and obs[0], "stdout_hex": obs and obs[1].hex()}}, True))

    # ---- verdict
    for c, m, i, why in disagreements:
        if c.key() in known_keys:
            continue
        in_dom = P["in_domain"](c, m) if m else True
        payload = {"property": prop, "kind": "correspondence", "why": why, "case": c.to_json(),
                   "model": m and {"class": m[0], "stdout_hex": m[1].hex()},
                   "implementation": i and {"class": i[0], "stdout_hex": i[1].hex()},
                   "reproduce": c.shell(tuc) if c.entry == "main" else "lib entry %s" % c.entry,
                   "theorem": cinfo["theorems"]}
        # for the properties whose specification is an absolute function, model = spec is a
        # theorem, so an in-domain disagreement is a failing input of the property itself
        violations.append((why, payload, bool(P.get("absolute")) and in_dom))
    for what, payload in oracle_fail:
        members = payload.pop("_cases", [])
        if members and any(all(k(c) for c in members) for k in known_classes):
            continue        # inside a listed finding class whose witness still reproduces
        violations.append((what, dict(payload, property=prop, kind="oracle"), True))
    if kernel_err:
        violations.append(("the extracted OCaml model and the Coq kernel disagree on the model's own result",
                           {"property": prop, "kind": "extraction", "correspondence": "ocaml/driver.ml + Extract.v vs vm_compute",
                            "detail": kernel_err}, False))
    if lib_broken:
        violations.append(("the in-process correspondence harness no longer builds against the library API of /repo; "
                           "the library-channel cases were skipped, the binary was still exercised",
                           {"property": prop, "kind": "correspondence-build", "correspondence": "harness-rs (lib channel)",
                            "detail": lib_broken}, False))
    for fn in tie_failed:
        r = tie_res.get(fn, tie_res.get("_corollaries", {}))
        violations.append(("the code as translated from the current source is no longer shown to be the model's: %s does not check" % r.get("lemma", "Tie/Corollaries.v"),
                           {"property": prop, "kind": "translation-tie", "function": fn, "source": r.get("source"),
                            "theorem": r.get("lemma", "Tie/Corollaries.v"), "file": "coq/Tie/Bridge_%s.v" % fn,
                            "log": r.get("detail", "")[-1500:],
                            "argument_search": r.get("search", "not run"),
                            "properties_resting_on_it": tie.USES.get(fn)}, False))
    if not ok_coq:
        violations.append(("proof / pin / hygiene check failed",
                           {"property": prop, "kind": "proof", "file": cinfo.get("failed_file"),
                            "log": cinfo["log"][-2000:], "theorem": cinfo["theorems"] or "Pins/%s.v" % prop}, False))

    # evidence
    def _short(j):
        for k in ("stdin_hex", "stdin"):
            if len(j.get(k, "")) > 400:
                j[k] = j[k][:400] + "...(%d chars)" % len(j[k])
        return j
    samples = [_short(dict(c.to_json(), model_class=model[c.id][0], model_stdout_hex=model[c.id][1].hex()[:400]))
               for c in cases[:3] + cases[len(corpus):len(corpus) + 3] if c.id in model][:6]
    lem = count_lemmas(prop)
    cov = {
        "obligations": cinfo["obligations"] + lem + len(tie_rel),
        "discharged": (cinfo["discharged"] + lem + len([n for n in tie_rel if tie_res[n]["status"] == "bridged"])) if ok_coq else 0,
        "checker_cmd": "cd /verif/coq && make (coq_makefile, full .vo build) && coqc -Q . TucModel Pins/%s.v" % prop,
        "trusted_base": props.TRUSTED,
        "theorems": cinfo["theorems"],
        "axioms_reported": cinfo["axioms"] or ["Closed under the global context"],
        "extraction_rechecked_by_kernel": n_kernel,
        "input_distribution": input_distribution(cases),
        "coqchk": cinfo.get("coqchk", "not run in the quick tier (thorough: coqchk -o on Properties/%s.vo and its dependencies)" % prop),
        "evaluations": len(cases),
        "distinct_nontrivial": len(nontrivial),
        "rule": P["rule"],
        "samples": samples,
        "model_classes": dict(classes),
        "channels": sorted(set(c.entry for c in cases)),
        "disagreements": len(disagreements),
        "oracle_evaluations": oracle_evals,
        "traces_validated_against_impl": len(cases) - len(disagreements),
        "corpus": len(corpus),
        "segmented_twins": len(twins),
        "translation_tie": {"functions": {k: {kk: vv for kk, vv in v.items() if kk in ("status", "source", "lemma") or (kk == "detail" and v["status"] != "bridged")}
                                          for k, v in tie_res.items() if not k.startswith("_")},
                            "corollaries": tie_res.get("_corollaries", {}).get("status"),
                            "relevant_to_this_property": tie_rel,
                            "how": "translator/ (rs2coq, syn) regenerates coq/Tie/Gen_*.v from the working tree; coq/Tie/Bridge_*.v and Corollaries.v are re-checked when they change"},
        "release_build_checked": bool(tuc_rel),
        "exhaustive": False,
    }
    cov.update(extra_cov)
    write_evidence(prop, tier, seed, cov, P["assumptions"], time.time() - t0, len(violations))

    for l in known_lines:
        print(l)
    if violations:
        # report the best one: a concrete failing input first
        violations.sort(key=lambda v: (not v[2], len(json.dumps(v[1]))))
        what, payload, has_input = violations[0]
        payload["all_violations"] = len(violations)
        path = write_replay(prop, payload)
        print("VIOLATION property=%s replay=%s%s" % (prop, path, "" if has_input else " no-failing-input-found"))
        log("%s: %d violation(s); first: %s" % (prop, len(violations), what))
        return 1
    log("%s %s: ok  cases=%d nontrivial=%d theorems=%d wall=%.1fs" % (prop, tier, len(cases), len(nontrivial),
                                                                     cinfo["obligations"], time.time() - t0))
    return 0


def replay(path):
    p = json.load(open(path))
    if "case" not in p:
        print(json.dumps(p, indent=1)[:3000])
        return 0
    c = p["case"]
    case = Case([bytes.fromhex(a) for a in c["argv_hex"]], bytes.fromhex(c["stdin_hex"]), entry=c["entry"], seg=c["seg"],
                extra=c["extra"])
    number([case])
    drv = build_driver()
    har = build_harness()
    m = run_model(drv, [case])[case.id]
    if case.entry == "main":
        i = run_cli(har, build_tuc(), [case], shim=build_shim())[case.id]
    else:
        i = run_lib(har, [case])[case.id]
    ok, why = agree(m, i)
    print("case:", case.shell())
    print("model:", m, "implementation:", i, "agree:", ok, why)
    return 0 if ok else 1


if __name__ == "__main__":
    sys.exit(main())
