#!/usr/bin/env python3
"""Exploration helper (not a registered check): run a generator family through model and CLI,
print the disagreements grouped by a crude signature."""
import sys, random, collections
sys.path.insert(0, __file__.rsplit('/', 1)[0])
from common import *
from gen import *
import families

def main():
    fam = sys.argv[1]
    n = int(sys.argv[2]) if len(sys.argv) > 2 else 2000
    seed = int(sys.argv[3]) if len(sys.argv) > 3 else 1
    rng = random.Random(seed)
    cases = number(dedup(getattr(families, fam)(rng, n)))
    drv = build_driver(); tuc = build_tuc(); har = build_harness()
    t = time.time()
    m = run_model(drv, cases); t1 = time.time()
    lib = [c for c in cases if c.entry != "main"]
    cli = [c for c in cases if c.entry == "main"]
    i = {}
    if cli: i.update(run_cli(har, tuc, cli, shim=build_shim()))
    if lib: i.update(run_lib(har, lib))
    t2 = time.time()
    bad = []
    classes = collections.Counter()
    for c in cases:
        if c.id not in m or c.id not in i:
            bad.append((c, ("missing", b""), i.get(c.id), "missing")); continue
        classes[m[c.id][0]] += 1
        ok, why = agree(m[c.id], i[c.id])
        if not ok:
            bad.append((c, m[c.id], i[c.id], why))
    print("cases", len(cases), "model %.1fs impl %.1fs" % (t1 - t, t2 - t1), dict(classes), "disagreements", len(bad))
    bad.sort(key=lambda x: len(x[0].stdin) + sum(len(a) for a in x[0].argv))
    for c, mm, ii, why in bad[:int(sys.argv[4]) if len(sys.argv) > 4 else 25]:
        print("---", why, c.entry, c.seg or "")
        print("   ", c.shell())
        print("    model:", mm[0], mm[1], " impl:", ii and ii[0], ii and ii[1])

main()
