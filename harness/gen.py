"""Case generators.  Every random choice comes from the one `random.Random` passed in."""
import itertools
from common import Case

# ---------------------------------------------------------------- bounds

def gen_index(rng, lo=1, hi=5, neg=0.3):
    k = rng.randint(lo, hi)
    return -k if rng.random() < neg else k


def gen_bound(rng, hi=5, neg=0.3, fb=0.2, open_p=0.25, range_p=0.35, fbtext=None):
    r = rng.random()
    if r < open_p:
        if rng.random() < 0.5:
            s = "%d:" % gen_index(rng, 1, hi, neg)
        else:
            s = ":%d" % gen_index(rng, 1, hi, neg)
    elif r < open_p + range_p:
        a = gen_index(rng, 1, hi, neg)
        b = gen_index(rng, 1, hi, neg)
        if (a > 0) == (b > 0) and a > b:
            a, b = b, a
        s = "%d:%d" % (a, b)
    else:
        s = "%d" % gen_index(rng, 1, hi, neg)
    if rng.random() < fb:
        s += "=" + rng.choice(fbtext or ["x", "", "fb", "a:b", "=", "é", "x-y", "N/A"])
    return s


def gen_bounds(rng, hi=5, neg=0.3, fb=0.2, fmt=0.25, maxn=3, fbtext=None, fillers=None):
    n = rng.randint(1, maxn)
    bs = [gen_bound(rng, hi, neg, fb, fbtext=fbtext) for _ in range(n)]
    if rng.random() < fmt:
        texts = fillers or ["", "x", " ", "{{", "}}", "\\n", "\\t", "é", "a{{b}}c", ": ", "-", ",", "=", "\\", "\\\\n"]
        out = rng.choice(texts)
        i = 0
        while i < len(bs):
            k = rng.randint(1, 2)
            out += "{" + ",".join(bs[i:i + k]) + "}" + rng.choice(texts)
            i += k
        return out
    return ",".join(bs)


def gen_forward_bounds(rng, hi=6, fb=0.25, fmt=0.3, strict=True, fbtext=None):
    """ascending positive bounds (what -M and the forward line reader accept)"""
    cur = 0
    bs = []
    n = rng.randint(1, 3)
    for i in range(n):
        l = cur + rng.randint(1 if strict else 0, 2)
        l = max(l, 1)
        kind = rng.random()
        if kind < 0.5:
            s, cur = "%d" % l, l
        elif kind < 0.8:
            r = l + rng.randint(0, 2)
            s, cur = "%d:%d" % (l, r), r
        elif i == 0 and kind < 0.9:
            r = l + rng.randint(0, 2)
            s, cur = ":%d" % r, r
        else:
            s = "%d:" % l
            if rng.random() < fb:
                s += "=" + rng.choice(fbtext or ["x", "", "fb"])
            bs.append(s)
            break
        if rng.random() < fb:
            s += "=" + rng.choice(fbtext or ["x", "", "fb", "x-y"])
        bs.append(s)
    if rng.random() < fmt:
        texts = ["", "x", " ", "{{", "}}", "\\n", "é", "<>", "-"]
        out = rng.choice(texts)
        for b in bs:
            out += "{" + b + "}" + rng.choice(texts)
        return out
    return ",".join(bs)


# ---------------------------------------------------------------- records / inputs

def gen_field(rng, alphabet, maxlen=3):
    return bytes(rng.choice(alphabet) for _ in range(rng.randint(0, maxlen)))


def gen_record(rng, delim, alphabet, maxfields=6, maxlen=3, run_p=0.2):
    n = rng.randint(1, maxfields)
    parts = []
    for i in range(n):
        parts.append(gen_field(rng, alphabet, maxlen))
        if i < n - 1:
            parts.append(delim * (rng.randint(2, 3) if rng.random() < run_p else 1))
    return b"".join(parts)


def gen_input(rng, delim, alphabet, eol=b"\n", maxrec=4, final_eol_p=0.7, **kw):
    n = rng.randint(0, maxrec)
    recs = []
    for _ in range(n):
        r = rng.random()
        if r < 0.1:
            recs.append(b"")
        elif r < 0.18:
            recs.append(gen_field(rng, alphabet, 4))       # no delimiter at all
        else:
            recs.append(gen_record(rng, delim, alphabet, **kw))
    data = eol.join(recs)
    if recs and rng.random() < final_eol_p:
        data += eol
    return data


ALPHA_SMALL = list(b"ab")
ALPHA_TEXT = list(b"abc xy12")
ALPHA_BIN = list(range(256))
ALPHA_NASTY = [0, 10, 13, 0x80, 0xff, 0xc3, 0xa9, ord("a"), ord("-"), ord(" "), ord('"'), ord("\\"), ord("$"), ord("{"), 9]


def pick_alphabet(rng, delim, eol):
    r = rng.random()
    if r < 0.35:
        a = ALPHA_SMALL + list(delim[:1])
    elif r < 0.6:
        a = ALPHA_TEXT
    elif r < 0.8:
        a = ALPHA_NASTY
    else:
        a = ALPHA_BIN
    return [c for c in a if c != eol[0]] or [ord("a")]


# code points at the edges of the UTF-8 encoding lengths and of the continuation-byte range (80 and BF in
# every position), plus a few that matter to regex word boundaries and to JSON
EDGE_CPS = [0x7F, 0x80, 0xBF, 0xC0, 0xFF, 0x100, 0x7FF, 0x800, 0xFFF, 0x1000, 0x203F, 0x20BF, 0x2028, 0xD7FF, 0xE000,
            0xFFFD, 0xFFFF, 0x10000, 0x1003F, 0x10FC0, 0x3FFFF, 0x40000, 0xFFFFF, 0x100000, 0x10FFFF, 0x301, 0x200D, 0x1F1E6]


def rand_scalar(rng):
    """a random Unicode scalar value, as a str: edge cases, or uniform within an encoding length"""
    if rng.random() < 0.4:
        return chr(rng.choice(EDGE_CPS))
    lo, hi = rng.choice([(0x20, 0x7E), (0x80, 0x7FF), (0x800, 0xFFFF), (0x10000, 0x10FFFF)])
    while True:
        cp = rng.randint(lo, hi)
        if not 0xD800 <= cp <= 0xDFFF:
            return chr(cp)


def utf8_text(rng, maxlen=5, pool=None):
    pool = pool or ["a", "b", " ", "é", "ß", "€", "漢", "𝄞", "😀", "é", " ", "\u007f", "\"", "\\", "\t", "\r", "\u0001", "\u001f", "-", ","]
    return "".join((rand_scalar(rng) if rng.random() < 0.2 else rng.choice(pool)) for _ in range(rng.randint(0, maxlen)))
