#!/usr/bin/env python3
"""One-off authoring helper: write Pins/<id>.v from Properties/<id>.v (the statements copied
out as `Check name : stmt.`).  The pin file is then committed; a later edit of the property
file that changes a statement makes the pin fail."""
import re, sys, os
coq = os.path.join(os.path.dirname(os.path.dirname(os.path.abspath(__file__))), "coq")
pid = sys.argv[1]
src = open(os.path.join(coq, "Properties", pid + ".v")).read()
hdr = re.search(r"(From TucModel Require Import.*?\.)\n", src, re.S).group(1)
hdr = hdr.rstrip(".") + " Properties.%s." % pid
opens = "\n".join(re.findall(r"^Local Open Scope .*$", src, re.M))
out = ["(** Pins for %s: the statements written out, so that no theorem is weakened quietly. *)" % pid, hdr, opens, ""]
for m in re.finditer(r"^Theorem\s+(\w+)\s*:\s*(.*?)\nProof\.", src, re.S | re.M):
    name, stmt = m.group(1), m.group(2).rstrip()
    assert stmt.endswith("."), name
    out.append("Check %s :\n  %s" % (name, stmt))
    out.append("Print Assumptions %s.\n" % name)
open(os.path.join(coq, "Pins", pid + ".v"), "w").write("\n".join(out))
print("wrote Pins/%s.v with %d pins" % (pid, len(out) // 2 - 2))
