#!/usr/bin/env python3
"""Authoring/diagnostic helper (not a registered check): source-line coverage of /repo/src by the
CLI cases of the quick generators.  Builds tuc with -C instrument-coverage (nightly, offline) into
.build/cov-target, runs every entry=main case of every property's quick family, merges the profiles
and prints llvm-cov's per-file report plus the uncovered lines of src/*.rs.

usage: coverage.py [Cnn ...]   (default: all properties)"""
import os, sys, glob, random, subprocess, shutil
sys.path.insert(0, os.path.dirname(os.path.abspath(__file__)))
from common import *
import props as P

NIGHTLY_BIN = glob.glob(os.path.expanduser("~/.rustup/toolchains/nightly-x86_64-*/lib/rustlib/*/bin"))[0]
PROFDATA, COV = os.path.join(NIGHTLY_BIN, "llvm-profdata"), os.path.join(NIGHTLY_BIN, "llvm-cov")

def main():
    ids = sys.argv[1:] or sorted(P.PROPS)
    tdir = os.path.join(BUILD, "cov-target")
    env = dict(os.environ, CARGO_NET_OFFLINE="true", RUSTFLAGS="-C instrument-coverage")
    subprocess.run(["cargo", "+nightly", "build", "--offline", "--manifest-path", os.path.join(REPO, "Cargo.toml"),
                    "--target-dir", tdir], env=env, check=True, stdout=subprocess.DEVNULL, stderr=subprocess.DEVNULL)
    tuc = os.path.join(tdir, "debug", "tuc")
    harness = build_harness()
    shim = build_shim()
    pdir = os.path.join(BUILD, "cov-prof")
    shutil.rmtree(pdir, ignore_errors=True); os.makedirs(pdir)
    os.environ["LLVM_PROFILE_FILE"] = os.path.join(pdir, "tuc-%8m.profraw")
    ENV["LLVM_PROFILE_FILE"] = os.environ["LLVM_PROFILE_FILE"]
    total = 0
    for pid in ids:
        pr = P.PROPS[pid]
        rng = random.Random(1)
        cases = [c for c in pr["gen"](rng, pr["budget"][0], "quick") if c.entry == "main"]
        for i, c in enumerate(cases):
            c.id = "%s-%d" % (pid, i)
        plain = [c for c in cases if not c.seg and not c.extra]
        faulty = [c for c in cases if c.seg or c.extra]
        if plain: run_cli(harness, tuc, plain)
        if faulty: run_cli(harness, tuc, faulty, shim=shim)
        total += len(cases)
        print("%s: %d CLI cases" % (pid, len(cases)), flush=True)
    merged = os.path.join(pdir, "all.profdata")
    subprocess.run([PROFDATA, "merge", "-sparse", "-o", merged] + glob.glob(os.path.join(pdir, "*.profraw")), check=True)
    src = os.path.join(REPO, "src")
    rep = subprocess.run([COV, "report", tuc, "-instr-profile=" + merged, "--ignore-filename-regex=(registry|rustc|\\.cargo)"],
                         capture_output=True, text=True).stdout
    print(rep)
    show = subprocess.run([COV, "show", tuc, "-instr-profile=" + merged, "--ignore-filename-regex=(registry|rustc|\\.cargo)",
                           "--show-line-counts-or-regions"], capture_output=True, text=True).stdout
    out = os.path.join(BUILD, "coverage.txt")
    open(out, "w").write(rep + "\n" + show)
    print("cases run: %d; annotated source in %s" % (total, out))

if __name__ == "__main__":
    main()
