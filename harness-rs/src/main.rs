// Correspondence harness, implementation side.
//
//   harness cli <tuc-binary> [shim.so]   < cases  > results
//       spawns the real binary once per case (16 worker threads)
//   harness lib                           < cases  > results
//       calls the pub entry points of the tuc library in-process
//
// Case line:   id entry argv stdin seg [k=v,...]
// Result line: id class outhex
use std::io::{BufRead, Read, Write};
use std::process::{Command, Stdio};
use std::sync::{Arc, Mutex};
use std::time::{Duration, Instant};

fn unhex(s: &str) -> Vec<u8> {
    if s == "-" || s == "_" {
        return Vec::new();
    }
    let b = s.as_bytes();
    (0..b.len() / 2)
        .map(|i| {
            let h = |c: u8| match c {
                b'0'..=b'9' => c - 48,
                b'a'..=b'f' => c - 87,
                b'A'..=b'F' => c - 55,
                _ => 0,
            };
            h(b[2 * i]) * 16 + h(b[2 * i + 1])
        })
        .collect()
}

fn hex(b: &[u8]) -> String {
    if b.is_empty() {
        return "-".to_string();
    }
    let mut s = String::with_capacity(b.len() * 2);
    for x in b {
        s.push_str(&format!("{:02x}", x));
    }
    s
}

#[derive(Clone)]
struct Case {
    id: String,
    entry: String,
    argv: Vec<Vec<u8>>,
    stdin: Vec<u8>,
    seg: Vec<usize>,
    extra: Vec<(String, String)>,
}

fn parse_case(line: &str) -> Option<Case> {
    let f: Vec<&str> = line.split(' ').collect();
    if f.len() < 5 {
        return None;
    }
    let argv = if f[2] == "-" {
        vec![]
    } else {
        f[2].split(',').map(unhex).collect()
    };
    let seg = if f[4] == "-" {
        vec![]
    } else {
        f[4].split(',').map(|x| x.parse().unwrap()).collect()
    };
    let extra = if f.len() > 5 && f[5] != "-" {
        f[5].split(',')
            .filter_map(|kv| kv.split_once('=').map(|(k, v)| (k.to_string(), v.to_string())))
            .collect()
    } else {
        vec![]
    };
    Some(Case {
        id: f[0].to_string(),
        entry: f[1].to_string(),
        argv,
        stdin: unhex(f[3]),
        seg,
        extra,
    })
}

// ---------------------------------------------------------------- CLI channel

fn run_cli(tuc: &str, shim: Option<&str>, c: &Case, timeout: Duration) -> (String, Vec<u8>) {
    use std::os::unix::ffi::OsStringExt;
    use std::os::unix::process::ExitStatusExt;
    let mut cmd = Command::new(tuc);
    for a in &c.argv {
        cmd.arg(std::ffi::OsString::from_vec(a.clone()));
    }
    cmd.env("RUST_BACKTRACE", "0");
    cmd.stdin(Stdio::piped()).stdout(Stdio::piped()).stderr(Stdio::null());
    if let Some(s) = shim {
        let mut use_shim = false;
        if !c.seg.is_empty() {
            let v: Vec<String> = c.seg.iter().map(|x| x.to_string()).collect();
            cmd.env("FIO_RSEG", v.join(","));
            use_shim = true;
        }
        for (k, v) in &c.extra {
            match k.as_str() {
                "rfail" => {
                    cmd.env("FIO_RFAIL", v);
                    use_shim = true;
                }
                "wfail" => {
                    cmd.env("FIO_WFAIL", v);
                    use_shim = true;
                }
                "wshort" => {
                    cmd.env("FIO_WSHORT", v);
                    use_shim = true;
                }
                "werrno" => {
                    cmd.env("FIO_WERRNO", v);
                }
                "rerrno" => {
                    cmd.env("FIO_RERRNO", v);
                }
                _ => {}
            }
        }
        if use_shim {
            cmd.env("LD_PRELOAD", s);
        }
    }
    let mut child = match cmd.spawn() {
        Ok(c) => c,
        Err(e) => return (format!("spawnerr:{}", e.kind() as i32), vec![]),
    };
    let mut sin = child.stdin.take().unwrap();
    let data = c.stdin.clone();
    let w = std::thread::spawn(move || {
        let _ = sin.write_all(&data);
    });
    let mut sout = child.stdout.take().unwrap();
    let r = std::thread::spawn(move || {
        let mut v = Vec::new();
        let _ = sout.read_to_end(&mut v);
        v
    });
    let start = Instant::now();
    let mut timed_out = false;
    let status = loop {
        match child.try_wait() {
            Ok(Some(st)) => break Some(st),
            Ok(None) => {
                if start.elapsed() > timeout {
                    let _ = child.kill();
                    let _ = child.wait();
                    timed_out = true;
                    break None;
                }
                std::thread::sleep(Duration::from_micros(300));
            }
            Err(_) => break None,
        }
    };
    let _ = w.join();
    let out = r.join().unwrap_or_default();
    let class = if timed_out {
        "timeout".to_string()
    } else {
        match status {
            Some(st) => match st.code() {
                Some(0) => "0".to_string(),
                Some(1) => "1".to_string(),
                Some(n) => format!("other:{}", n),
                None => format!("sig:{}", st.signal().unwrap_or(0)),
            },
            None => "waiterr".to_string(),
        }
    };
    (class, out)
}

// ---------------------------------------------------------------- lib channel
// Built only with the cargo feature "lib" (the default).  When the library API of the code
// under test changes so that this part no longer compiles, the check falls back to a CLI-only
// harness (no feature) so that it can still look for a failing input through the binary.

#[cfg(feature = "lib")]
mod lib_mode {
use super::*;

use std::convert::TryFrom;
use std::str::FromStr;
use tuc::bounds::{BoundOrFiller, BoundsType, Side, UserBoundsList};
use tuc::options::{Opt, RegexBag, Trim, EOL};

/// Clean-argv reader for the lib channel: `-X value` pairs and plain flags only.
/// Mirrors the derivations of parse_args (join, replacement and regex for -c / --json).
fn opt_of_argv(argv: &[Vec<u8>]) -> Result<Opt, String> {
    let mut fields: Option<UserBoundsList> = None;
    let mut chars: Option<UserBoundsList> = None;
    let mut bytes: Option<UserBoundsList> = None;
    let mut lines: Option<UserBoundsList> = None;
    let mut delim: Option<Vec<u8>> = None;
    let mut repl: Option<Vec<u8>> = None;
    let mut regex: Option<String> = None;
    let mut trim: Option<Trim> = None;
    let mut fallback: Option<Vec<u8>> = None;
    let mut fixed: Option<usize> = None;
    let (mut g, mut p, mut s, mut z, mut m, mut j, mut json, mut nojoin) =
        (false, false, false, false, false, false, false, false);
    let mut i = 0;
    let sv = |v: &Vec<u8>| String::from_utf8(v.clone()).map_err(|e| e.to_string());
    while i < argv.len() {
        let a = sv(&argv[i])?;
        let mut val = || -> Result<Vec<u8>, String> {
            i += 1;
            argv.get(i).cloned().ok_or_else(|| "missing value".to_string())
        };
        match a.as_str() {
            "-f" => fields = Some(UserBoundsList::from_str(&sv(&val()?)?).map_err(|e| e.to_string())?),
            "-c" => chars = Some(UserBoundsList::from_str(&sv(&val()?)?).map_err(|e| e.to_string())?),
            "-b" => bytes = Some(UserBoundsList::from_str(&sv(&val()?)?).map_err(|e| e.to_string())?),
            "-l" => lines = Some(UserBoundsList::from_str(&sv(&val()?)?).map_err(|e| e.to_string())?),
            "-d" => delim = Some(val()?),
            "-r" => repl = Some(val()?),
            "-e" => regex = Some(sv(&val()?)?),
            "-t" => trim = Some(Trim::from_str(&sv(&val()?)?).map_err(|e| e.to_string())?),
            "--fallback-oob" => fallback = Some(val()?),
            "-M" => fixed = Some(sv(&val()?)?.parse::<usize>().map_err(|e| e.to_string())?),
            "-g" => g = true,
            "-p" => p = true,
            "-s" => s = true,
            "-z" => z = true,
            "-m" => m = true,
            "-j" => j = true,
            "--json" => json = true,
            "--no-join" => nojoin = true,
            other => return Err(format!("unsupported token {}", other)),
        }
        i += 1;
    }
    let bounds_type = if fields.is_some() {
        BoundsType::Fields
    } else if bytes.is_some() {
        BoundsType::Bytes
    } else if chars.is_some() {
        BoundsType::Characters
    } else if lines.is_some() {
        BoundsType::Lines
    } else {
        fields = Some(UserBoundsList::from_str("1:").unwrap());
        BoundsType::Fields
    };
    let delimiter = match bounds_type {
        BoundsType::Fields => delim.unwrap_or_else(|| b"\t".to_vec()),
        BoundsType::Lines => b"\n".to_vec(),
        _ => Vec::new(),
    };
    if (j && nojoin) || (json && nojoin) || (repl.is_some() && (nojoin || json)) {
        return Err("conflict".into());
    }
    let is_chars = bounds_type == BoundsType::Characters;
    if is_chars && nojoin {
        return Err("conflict".into());
    }
    if is_chars {
        repl = Some(Vec::new());
    }
    if json {
        repl = Some(b",".to_vec());
    }
    let join = j || json || repl.is_some() || (bounds_type == BoundsType::Lines && !nojoin) || is_chars;
    if json && !is_chars && bounds_type != BoundsType::Fields {
        return Err("conflict".into());
    }
    let regex_text = if is_chars { Some("\\b|\\B".to_string()) } else { regex };
    let regex_bag = match regex_text {
        Some(t) => Some(RegexBag {
            normal: regex::bytes::Regex::new(&t).map_err(|e| e.to_string())?,
            greedy: regex::bytes::Regex::new(&format!("({})+", t)).map_err(|e| e.to_string())?,
        }),
        None => None,
    };
    let bounds = fields.or(chars).or(bytes).or(lines).unwrap();
    if json && bounds.iter().any(|s| matches!(s, BoundOrFiller::Filler(_))) {
        return Err("conflict".into());
    }
    Ok(Opt {
        complement: m,
        only_delimited: s,
        greedy_delimiter: g,
        compress_delimiter: p,
        version: false,
        eol: if z { EOL::Zero } else { EOL::Newline },
        join,
        json,
        fixed_memory: fixed,
        delimiter,
        bounds_type,
        bounds,
        replace_delimiter: repl,
        trim,
        fallback_oob: fallback,
        regex_bag,
        // fields the harness does not know about (added by a later change to the code under
        // test) take their default, so that such a change does not break the build
        ..Opt::default()
    })
}

/// A BufRead double serving the input in a prescribed segmentation: each fill_buf()
/// returns what is left of the current segment; consume() may stop inside it.
struct SegReader {
    data: Vec<u8>,
    pos: usize,
    seg: Vec<usize>,
    seg_idx: usize,
    seg_end: usize,
}

impl SegReader {
    fn new(data: Vec<u8>, seg: Vec<usize>) -> Self {
        SegReader { data, pos: 0, seg, seg_idx: 0, seg_end: 0 }
    }
}

impl Read for SegReader {
    fn read(&mut self, buf: &mut [u8]) -> std::io::Result<usize> {
        let n = {
            let b = self.fill_buf()?;
            let n = b.len().min(buf.len());
            buf[..n].copy_from_slice(&b[..n]);
            n
        };
        self.consume(n);
        Ok(n)
    }
}

impl BufRead for SegReader {
    fn fill_buf(&mut self) -> std::io::Result<&[u8]> {
        if self.pos >= self.seg_end {
            // open the next segment
            let size = if self.seg_idx < self.seg.len() {
                let s = self.seg[self.seg_idx];
                self.seg_idx += 1;
                s
            } else {
                self.data.len() - self.pos
            };
            self.seg_end = (self.pos + size).min(self.data.len());
        }
        Ok(&self.data[self.pos..self.seg_end])
    }
    fn consume(&mut self, amt: usize) {
        self.pos = (self.pos + amt).min(self.seg_end);
    }
}

fn side_str(s: &Side) -> String {
    match s {
        Side::Some(v) => v.to_string(),
        Side::Continue => String::new(),
    }
}

pub fn run_lib(c: &Case) -> (String, Vec<u8>) {
    let c2 = c.clone();
    let res = std::panic::catch_unwind(move || -> (String, Vec<u8>) {
        let c = c2;
        if c.entry == "bounds" {
            let s = match String::from_utf8(c.stdin.clone()) {
                Ok(s) => s,
                Err(_) => return ("unknown".into(), vec![]),
            };
            return match UserBoundsList::from_str(&s) {
                Err(_) => ("1".into(), vec![]),
                Ok(l) => {
                    let items: Vec<String> = l
                        .list
                        .iter()
                        .map(|b| match b {
                            BoundOrFiller::Bound(b) => format!(
                                "B{}:{}:{}:{}",
                                side_str(&b.l),
                                side_str(&b.r),
                                if b.is_last { 1 } else { 0 },
                                match &b.fallback_oob {
                                    None => "N".to_string(),
                                    Some(f) => format!("S{}", hex(f)),
                                }
                            ),
                            BoundOrFiller::Filler(f) => format!("F{}", hex(f)),
                        })
                        .collect();
                    (
                        "0".into(),
                        format!("{};{}", items.join("|"), side_str(&l.last_interesting_field)).into_bytes(),
                    )
                }
            };
        }
        let opt = match opt_of_argv(&c.argv) {
            Ok(o) => o,
            Err(_) => return ("1".into(), vec![]),
        };
        let mut out: Vec<u8> = Vec::new();
        let mut rd = SegReader::new(c.stdin.clone(), c.seg.clone());
        let r: Result<(), String> = match c.entry.as_str() {
            "general" => tuc::cut_str::read_and_cut_str(&mut rd, &mut out, opt).map_err(|e| e.to_string()),
            "fast" => match tuc::fast_lane::FastOpt::try_from(&opt) {
                Ok(fo) => tuc::fast_lane::read_and_cut_text_as_bytes(&mut rd, &mut out, &fo)
                    .map_err(|e| e.to_string()),
                Err(_) => return ("unknown".into(), vec![]),
            },
            "stream" => match tuc::stream::StreamOpt::try_from(&opt) {
                Ok(so) => tuc::stream::read_and_cut_bytes_stream(&mut rd, &mut out, &so)
                    .map_err(|e| e.to_string()),
                Err(_) => return ("1".into(), vec![]),
            },
            "lines" => tuc::cut_lines::read_and_cut_lines(&mut rd, &mut out, &opt).map_err(|e| e.to_string()),
            "bytes" => tuc::cut_bytes::read_and_cut_bytes(&mut rd, &mut out, &opt).map_err(|e| e.to_string()),
            _ => return ("badentry".into(), vec![]),
        };
        match r {
            Ok(()) => ("0".into(), out),
            Err(_) => ("1".into(), out),
        }
    });
    match res {
        Ok(x) => x,
        Err(_) => ("panic".into(), vec![]),
    }
}

}

#[cfg(not(feature = "lib"))]
mod lib_mode {
    use super::*;
    pub fn run_lib(_c: &Case) -> (String, Vec<u8>) {
        ("skipped".to_string(), vec![])
    }
}
use lib_mode::run_lib;

fn main() {
    let args: Vec<String> = std::env::args().collect();
    let mode = args.get(1).map(|s| s.as_str()).unwrap_or("");
    let stdin = std::io::stdin();
    let cases: Vec<Case> = stdin.lock().lines().filter_map(|l| parse_case(&l.unwrap())).collect();
    let n = cases.len();
    let results: Arc<Mutex<Vec<Option<(String, Vec<u8>)>>>> = Arc::new(Mutex::new(vec![None; n]));
    let next = Arc::new(Mutex::new(0usize));
    let cases = Arc::new(cases);
    let workers: usize = std::env::var("HARNESS_JOBS").ok().and_then(|x| x.parse().ok()).unwrap_or(16);
    let timeout = Duration::from_millis(
        std::env::var("HARNESS_TIMEOUT_MS").ok().and_then(|x| x.parse().ok()).unwrap_or(10000),
    );
    if mode == "lib" {
        // silence panic messages
        std::panic::set_hook(Box::new(|_| {}));
    }
    let tuc = args.get(2).cloned().unwrap_or_default();
    let shim = args.get(3).cloned();
    let mut hs = vec![];
    for _ in 0..workers {
        let cases = cases.clone();
        let results = results.clone();
        let next = next.clone();
        let tuc = tuc.clone();
        let shim = shim.clone();
        let mode = mode.to_string();
        hs.push(std::thread::spawn(move || loop {
            let i = {
                let mut g = next.lock().unwrap();
                let i = *g;
                *g += 1;
                i
            };
            if i >= cases.len() {
                break;
            }
            let r = if mode == "cli" {
                run_cli(&tuc, shim.as_deref(), &cases[i], timeout)
            } else {
                run_lib(&cases[i])
            };
            results.lock().unwrap()[i] = Some(r);
        }));
    }
    for h in hs {
        let _ = h.join();
    }
    let out = std::io::stdout();
    let mut o = std::io::BufWriter::new(out.lock());
    let res = results.lock().unwrap();
    for (i, c) in cases.iter().enumerate() {
        if let Some((class, bytes)) = &res[i] {
            let _ = writeln!(o, "{} {} {}", c.id, class, hex(bytes));
        }
    }
}
